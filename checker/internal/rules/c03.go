package rules

import (
	"go/ast"
	"go/token"
	"go/types"
	"strings"
	"verif/checker/internal/orderdom"

	"verif/checker/internal/pathsim"
	"verif/checker/internal/prog"
)

// filtersTombstones: does fi (including its literals) skip entries on an is-delete
// condition? Recognised: an if whose condition mentions IsDelete()/isDeleteOp()/a field
// named isDelete or Deleted and whose body continues / returns.
func (r *Run) filtersTombstones(fi *prog.FuncInfo) (bool, token.Pos) {
	if fi == nil || fi.Decl.Body == nil {
		return false, token.NoPos
	}
	info := fi.Pkg.TypesInfo
	found := false
	var at token.Pos
	inspect(fi.Decl.Body, func(nd ast.Node) bool {
		is, ok := nd.(*ast.IfStmt)
		if !ok {
			return true
		}
		mention := false
		inspect(is.Cond, func(m ast.Node) bool {
			switch x := m.(type) {
			case *ast.CallExpr:
				if fn := r.P.CalleeFunc(info, x); fn != nil && (fn.Name() == "IsDelete" || fn.Name() == "isDeleteOp") {
					mention = true
				}
			case *ast.SelectorExpr:
				if f := prog.SelField(info, x); f != nil && (f.Name() == "isDelete" || f.Name() == "Deleted") {
					mention = true
				}
			}
			return true
		})
		if !mention {
			return true
		}
		// condition must be positive on "is delete" (not `!IsDelete`): if negated, the skip is in else
		neg := false
		if u, ok := ast.Unparen(is.Cond).(*ast.UnaryExpr); ok && u.Op == token.NOT {
			neg = true
		}
		skips := func(b ast.Node) bool {
			s := false
			if b == nil {
				return false
			}
			inspect(b, func(m ast.Node) bool {
				if br, ok := m.(*ast.BranchStmt); ok && br.Tok == token.CONTINUE {
					s = true
				}
				return true
			})
			return s
		}
		// `if !e.IsDelete() && !yield(e) { return }`: yield is only evaluated for live entries
		if b, ok := ast.Unparen(is.Cond).(*ast.BinaryExpr); ok && b.Op == token.LAND {
			if u, ok := ast.Unparen(b.X).(*ast.UnaryExpr); ok && u.Op == token.NOT {
				isDelTest := false
				inspect(u.X, func(m ast.Node) bool {
					if c, ok := m.(*ast.CallExpr); ok {
						if fn := r.P.CalleeFunc(info, c); fn != nil && (fn.Name() == "IsDelete" || fn.Name() == "isDeleteOp") {
							isDelTest = true
						}
					}
					return true
				})
				yieldsRight := false
				inspect(b.Y, func(m ast.Node) bool {
					if c, ok := m.(*ast.CallExpr); ok {
						if id, ok := c.Fun.(*ast.Ident); ok && id.Name == "yield" {
							yieldsRight = true
						}
					}
					return true
				})
				if isDelTest && yieldsRight {
					found, at = true, is.Pos()
					return true
				}
			}
		}
		if (!neg && skips(is.Body)) || (neg && is.Else != nil && skips(is.Else)) {
			// a continue on the delete branch skips the entry unless the branch yields first
			yields := false
			inspect(is.Body, func(m ast.Node) bool {
				if call, ok := m.(*ast.CallExpr); ok {
					if id, ok := call.Fun.(*ast.Ident); ok && id.Name == "yield" {
						yields = true
					}
				}
				return true
			})
			if !yields {
				found, at = true, is.Pos()
			}
		}
		return true
	})
	return found, at
}

// mergeInputs lists, for a MergeEntries call in fi, the producer functions of the merged
// iterators in order (composite literal order, or one producer for loop-filled slices).
func (r *Run) mergeInputs(fi *prog.FuncInfo, call *ast.CallExpr) (producers []*types.Func, ordered bool) {
	info := fi.Pkg.TypesInfo
	if len(call.Args) != 1 {
		return nil, false
	}
	arg := call.Args[0]
	// a parameter / receiver (field) of an extracted helper with one use site stands for the
	// argument / value there
	if id, ok := ast.Unparen(arg).(*ast.Ident); ok {
		if a := derefStep(info, id); a != nil {
			if sc := r.P.ScopeAt(a.Pos()); sc != nil && sc.Fn != nil && sc.Fn != fi && sc.Fn.Decl != nil {
				fi, arg = sc.Fn, a
				info = fi.Pkg.TypesInfo
			}
		}
	}
	if a := deref(info, arg); a != ast.Unparen(arg) {
		if sc := r.P.ScopeAt(a.Pos()); sc != nil && sc.Fn != nil && sc.Fn != fi && sc.Fn.Decl != nil {
			fi, arg = sc.Fn, a
			info = fi.Pkg.TypesInfo
		}
	}
	def := resolveLocal(info, fi.Decl.Body, arg)
	// the slice may be built by an extracted helper that returns it: continue inside the helper
	if hc, ok := ast.Unparen(def).(*ast.CallExpr); ok {
		if hf := r.P.FuncInfoOf(r.P.CalleeFunc(info, hc)); isNewHelper(r.P, hf) {
			var ret ast.Expr
			n := 0
			ast.Inspect(hf.Decl.Body, func(m ast.Node) bool {
				if rs, ok := m.(*ast.ReturnStmt); ok && len(rs.Results) == 1 {
					ret = rs.Results[0]
					n++
				}
				return true
			})
			if n == 1 {
				fi, arg = hf, ret
				info = fi.Pkg.TypesInfo
				def = resolveLocal(info, fi.Decl.Body, arg)
			}
		}
	}
	var producerOf func(e ast.Expr) *types.Func
	producerOf = func(e ast.Expr) *types.Func {
		// an immediately invoked literal that hands its parameter back unchanged is transparent
		if c, ok := ast.Unparen(e).(*ast.CallExpr); ok && len(c.Args) == 1 {
			if lit, ok := ast.Unparen(c.Fun).(*ast.FuncLit); ok && len(lit.Body.List) == 1 && lit.Type.Params != nil && len(lit.Type.Params.List) == 1 && len(lit.Type.Params.List[0].Names) == 1 {
				if ret, ok := lit.Body.List[0].(*ast.ReturnStmt); ok && len(ret.Results) == 1 && prog.IdentObjPlain(info, ret.Results[0]) == info.Defs[lit.Type.Params.List[0].Names[0]] {
					return producerOf(c.Args[0])
				}
			}
		}
		// a call is its own producer (also a call of an extracted wrapper such as a filter around the
		// scan: whether that wrapper keeps tombstones is decided from its body)
		if c, ok := ast.Unparen(e).(*ast.CallExpr); ok {
			if fn := r.P.CalleeFunc(info, c); fn != nil {
				return fn
			}
		}
		e = resolveLocal(info, fi.Decl.Body, e)
		if c, ok := ast.Unparen(e).(*ast.CallExpr); ok {
			return r.P.CalleeFunc(info, c)
		}
		return nil
	}
	if cl, ok := ast.Unparen(def).(*ast.CompositeLit); ok {
		for _, el := range cl.Elts {
			producers = append(producers, producerOf(el))
		}
		return producers, true
	}
	// loop-filled: iters[i] = X(...)
	obj := prog.IdentObj(info, arg)
	inspect(fi.Decl.Body, func(nd ast.Node) bool {
		if as, ok := nd.(*ast.AssignStmt); ok && len(as.Lhs) == 1 && len(as.Rhs) == 1 {
			if ix, ok := ast.Unparen(as.Lhs[0]).(*ast.IndexExpr); ok && obj != nil && prog.IdentObj(info, ix.X) == obj {
				producers = append(producers, producerOf(as.Rhs[0]))
			}
		}
		return true
	})
	return producers, false
}

func init() {
	prop("C03",
		"(a) state keys are [key group][0x00][length-prefixed subject][length-prefixed namespace][entry key], the per-subject scan prefix is the first four segments (prefix-free because the subject is length-prefixed), and the decoder mirrors the encoder (C05.e); (b) within a batch the state of a key is read with that key's prefix before the handler runs, kept only in containers created for this batch, and mutations / timers are applied after it returns, for the key the handler named; (c) every mutation kind is applied: put -> DB.Put, delete -> DB.Delete, under the key built from (subject, namespace, entry key); (d) tombstones survive every merge of a scan except into the oldest input, and the user-facing scan filters them after the last merge; (e) lookups prefer the newest version (C07.a, C07.b, C07.c, C07.g).",
		"namespaces of 256 bytes or more (one length byte) — outside the statement's quantifier; equality with a shadow map over histories.")

	register(&Obligation{ID: "C03.b", Props: []string{"C03"}, Template: "must-precede+value-identity",
		Desc: "Operator.processEventBatch: GetState(key) with its error checked precedes the handler call; ApplyMutations and SetTimer follow the successful handler call and use the key the handler returned; the containers of key states are created per batch; GetState scans exactly encodeSubjectKey(key) and returns scan errors",
		Run: func(r *Run) {
			f := r.P.Func("workers/operator", "(*Operator).processEventBatch")
			info := f.Pkg.TypesInfo
			getState := r.P.FuncObj("workers/operator", "(*KeyedStateStore).GetState")
			handler := r.P.FuncObj("proto", "Handler.ProcessEventBatch")
			apply := r.P.FuncObj("workers/operator", "(*KeyedStateStore).ApplyMutations")
			setTimer := r.P.FuncObj("workers/operator", "(*TimerRegistry).SetTimer")
			sinkW := r.P.FuncObj("connectors", "SinkWriter.Write")
			r.errCheckedAfter(f.Decl, f.Name(), "stateStore.GetState", "userHandler.ProcessEventBatch", callTo(getState), callTo(handler))
			n1 := r.errChecked(f.Decl, f.Name(), "userHandler.ProcessEventBatch", "stateStore.ApplyMutations", callTo(handler), callTo(apply))
			n2 := r.errChecked(f.Decl, f.Name(), "userHandler.ProcessEventBatch", "timerRegistry.SetTimer", callTo(handler), callTo(setTimer))
			r.errChecked(f.Decl, f.Name(), "userHandler.ProcessEventBatch", "sink.Write", callTo(handler), callTo(sinkW))
			if n1 == 0 || n2 == 0 {
				r.Fail(f.Name()+":effects", f.Decl.Pos(), nil, "processEventBatch must apply the handler's state mutations and timers (ApplyMutations: %d sites, SetTimer: %d sites)", n1, n2)
			}
			r.checkErrReturned(f, apply, "stateStore.ApplyMutations")
			// the key passed to ApplyMutations / SetTimer is keyResult.Key of the same result whose mutations are applied
			inspect(f.Decl.Body, func(nd ast.Node) bool {
				call, ok := nd.(*ast.CallExpr)
				if !ok {
					return true
				}
				fn := r.P.CalleeFunc(info, call)
				if fn != apply && fn != setTimer {
					return true
				}
				r.Site(call.Pos(), "key argument of "+fn.Name())
				k, ok := ast.Unparen(call.Args[0]).(*ast.SelectorExpr)
				if !ok || k.Sel.Name != "Key" {
					r.Fail(f.Name()+":key-arg:"+fn.Name(), call.Pos(), nil, "%s is not given the key of the handler's key result", fn.Name())
					return true
				}
				base := prog.IdentObj(info, k.X)
				if fn == apply {
					m, ok := ast.Unparen(call.Args[1]).(*ast.SelectorExpr)
					if !ok || prog.IdentObj(info, m.X) != base {
						r.Fail(f.Name()+":mutations-arg", call.Pos(), nil, "the mutations applied do not come from the same key result as the key: one key's mutations would be written under another key")
					}
				}
				return true
			})
			// every container of key states the batch uses (the by-key cache that lets a second event
			// of the same key skip GetState, the slice handed to the handler) is created in this call:
			// one that outlives the batch would hand the handler the state read for an earlier batch
			isKeyStates := func(t types.Type) bool {
				var el types.Type
				switch u := t.Underlying().(type) {
				case *types.Map:
					el = u.Elem()
				case *types.Slice:
					el = u.Elem()
				default:
					return false
				}
				if p, ok := el.Underlying().(*types.Pointer); ok {
					el = p.Elem()
				}
				n, ok := el.(*types.Named)
				return ok && n.Obj().Name() == "KeyState" && n.Obj().Pkg() != nil && strings.HasSuffix(n.Obj().Pkg().Path(), "handlerpb")
			}
			cleared := map[string]bool{}
			for _, st := range f.Decl.Body.List {
				if es, ok := st.(*ast.ExprStmt); ok {
					if call, ok := es.X.(*ast.CallExpr); ok && len(call.Args) == 1 {
						if id, ok := call.Fun.(*ast.Ident); ok && id.Name == "clear" && info.Uses[id] == types.Universe.Lookup("clear") {
							cleared[types.ExprString(deref(info, call.Args[0]))] = true
						}
					}
				}
				stop := false
				ast.Inspect(st, func(nd ast.Node) bool {
					switch nd.(type) {
					case *ast.ForStmt, *ast.RangeStmt:
						stop = true
					}
					return !stop
				})
				if stop {
					break
				}
			}
			nCont := 0
			seenCont := map[types.Object]bool{}
			inspect(f.Decl.Body, func(nd ast.Node) bool {
				var base ast.Expr
				switch x := nd.(type) {
				case *ast.IndexExpr:
					base = x.X
				case *ast.RangeStmt:
					base = x.X
				default:
					return true
				}
				tv, ok := info.Types[base]
				if !ok || !isKeyStates(tv.Type) {
					return true
				}
				if o := prog.IdentObj(info, base); o != nil {
					if seenCont[o] {
						return true
					}
					seenCont[o] = true
				}
				nCont++
				r.Site(base.Pos(), "key-state container "+types.ExprString(base))
				src := ast.Unparen(deref(info, base))
				fresh := false
				switch y := src.(type) {
				case *ast.CompositeLit:
					fresh = true
				case *ast.CallExpr:
					if id, ok := y.Fun.(*ast.Ident); ok && id.Name == "make" && info.Uses[id] == types.Universe.Lookup("make") {
						fresh = true
					}
					for _, nm := range [][2]string{{"slices", "Collect"}, {"slices", "AppendSeq"}, {"maps", "Values"}} {
						if _, ok := isCallToNamed(info, y, nm[0], nm[1]); ok {
							fresh = true // collected from another container, which is judged where it is ranged / indexed
						}
					}
				case *ast.Ident:
					// `var m map[..]..` / `var s []..` declared in this call and filled by append
					if v, ok := info.Uses[y].(*types.Var); ok && !v.IsField() && v.Pkg() != nil && v.Parent() != v.Pkg().Scope() && !(v.Pos() >= f.Decl.Type.Pos() && v.Pos() <= f.Decl.Type.End()) && (f.Decl.Recv == nil || !(v.Pos() >= f.Decl.Recv.Pos() && v.Pos() <= f.Decl.Recv.End())) {
						fresh = true
					}
				case *ast.SelectorExpr:
					// a field of the handler's response (resp.KeyResults is not a KeyState container, but be exact)
				}
				if !fresh && cleared[types.ExprString(src)] {
					fresh = true
				}
				if !fresh {
					r.Fail(f.Name()+":state-cache-outlives-batch", base.Pos(), nil, "the key states of the batch are kept in %s, which is not created in this call: after a batch that failed past GetState (or across a redeploy) the handler is given the state read for an earlier batch instead of the stored state", types.ExprString(src))
				}
				return true
			})
			if nCont == 0 {
				r.Note("processEventBatch keeps no container of key states")
			}
			// GetState is called with the event's key and the state is stored under that key
			gs := r.P.Func("workers/operator", "(*KeyedStateStore).GetState")
			gi := gs.Pkg.TypesInfo
			scan := r.P.FuncObj("dkv", "(*DB).ScanPrefix")
			enc := r.P.FuncObj("workers/operator", "(*KeyedStateStore).encodeSubjectKey")
			okScan := false
			inspect(gs.Decl.Body, func(nd ast.Node) bool {
				if call, ok := nd.(*ast.CallExpr); ok && r.P.CalleeFunc(gi, call) == scan && len(call.Args) == 2 {
					r.Site(call.Pos(), "GetState scan prefix")
					if c2, ok := ast.Unparen(call.Args[0]).(*ast.CallExpr); ok && r.P.CalleeFunc(gi, c2) == enc && len(c2.Args) == 1 && r.isParam(gs, c2.Args[0], 0) {
						okScan = true
					}
				}
				return true
			})
			if !okScan {
				r.Fail(gs.Name()+":scan-prefix", gs.Decl.Pos(), nil, "GetState does not scan the prefix encodeSubjectKey(key) of the key it was asked for: entries of other keys would appear, or the key's own entries be missed")
			}
			// scan error returned
			okErr := false
			inspect(gs.Decl.Body, func(nd ast.Node) bool {
				if is, ok := nd.(*ast.IfStmt); ok {
					if x, notNil, ok := pathsimIsNil(gi, is.Cond); ok && notNil && strings.Contains(strings.ToLower(types.ExprString(x)), "err") {
						for _, st := range is.Body.List {
							if _, ok := st.(*ast.ReturnStmt); ok {
								okErr = true
							}
						}
					}
				}
				return true
			})
			if !okErr {
				r.Fail(gs.Name()+":scan-error", gs.Decl.Pos(), nil, "GetState does not return the scan error: a failed read would look like empty state and the handler would overwrite it")
			}
			// grouping: the scan is ordered by (namespace, entry key); a new namespace group is started
			// exactly when there is none yet or the entry's namespace differs from the current group's
			var scanLoop *ast.RangeStmt
			inspect(gs.Decl.Body, func(nd ast.Node) bool {
				if rs, ok := nd.(*ast.RangeStmt); ok && scanLoop == nil && r.exprCalls(gi, rs.X, scan) {
					scanLoop = rs
				}
				return true
			})
			if scanLoop != nil {
				var group types.Object
				nsText := ""
				ast.Inspect(scanLoop.Body, func(nd ast.Node) bool {
					as, ok := nd.(*ast.AssignStmt)
					if !ok || as.Tok != token.ASSIGN || len(as.Lhs) != 1 || len(as.Rhs) != 1 {
						return true
					}
					u, ok := ast.Unparen(as.Rhs[0]).(*ast.UnaryExpr)
					if !ok || u.Op != token.AND {
						return true
					}
					cl, ok := u.X.(*ast.CompositeLit)
					if !ok {
						return true
					}
					o := prog.IdentObjPlain(gi, as.Lhs[0])
					if v, isVar := o.(*types.Var); !isVar || (v.Pos() > scanLoop.Body.Pos() && v.Pos() < scanLoop.Body.End()) {
						return true
					}
					for _, el := range cl.Elts {
						if kv, ok := el.(*ast.KeyValueExpr); ok {
							if id, ok := kv.Key.(*ast.Ident); ok && id.Name == "Namespace" {
								group, nsText = o, types.ExprString(kv.Value)
							}
						}
					}
					return true
				})
				if group == nil {
					r.Fail(gs.Name()+":grouping", scanLoop.Pos(), nil, "GetState no longer groups the scanned entries by namespace")
				} else {
					var tail []ast.Stmt
					for i, st := range scanLoop.Body.List {
						found := false
						ast.Inspect(st, func(m ast.Node) bool {
							if id, ok := m.(*ast.Ident); ok && gi.Uses[id] == group {
								found = true
							}
							return !found
						})
						if found {
							tail = scanLoop.Body.List[i:]
							break
						}
					}
					gn := group.Name()
					m := orderdom.New(gi, map[string]string{gn + " == nil": "?none", gn + " != nil": "?some", gn + ".Namespace": "cur", gn + ".GetNamespace()": "cur", nsText: "ns"})
					m.AssignEffect = func(o types.Object) bool { return o == group }
					m.IgnoreStores = true
					res := m.CheckBody(tail,
						func(e odEnv) bool { return e.Bool["?none"] != e.Bool["?some"] },
						func(e odEnv) orderdom.Value {
							if e.Bool["?none"] || e.Rank["cur"] != e.Rank["ns"] {
								return orderdom.Sym("effect")
							}
							return orderdom.Sym("end")
						})
					r.finishOD(gs.Name()+":grouping", tail[0].Pos(), res, "no group yet || entry namespace != current group's namespace: start a new group")
				}
			}
			// decodeKey result usage: namespace groups and entry key
			dec := r.P.FuncObj("workers/operator", "(*KeyedStateStore).decodeKey")
			if !r.exprCalls(gi, gs.Decl.Body, dec) {
				r.Fail(gs.Name()+":decode", gs.Decl.Pos(), nil, "GetState no longer decodes namespace and entry key from the stored key")
			}
		}})

	register(&Obligation{ID: "C03.c", Props: []string{"C03"}, Template: "exhaustive-switch+value-identity",
		Desc: "KeyedStateStore.ApplyMutations handles every generated StateMutation kind: Put -> db.Put(encodeDBKey(subject, namespace, key), value), Delete -> db.Delete(encodeDBKey(subject, namespace, key)); unknown kinds are not silently skipped; every namespace and mutation is visited",
		Run: func(r *Run) {
			f := r.P.Func("workers/operator", "(*KeyedStateStore).ApplyMutations")
			info := f.Pkg.TypesInfo
			hp := r.P.All["reduction.dev/reduction-protocol/handlerpb"]
			if hp == nil {
				r.Error("handlerpb not loaded")
				return
			}
			itn, _ := hp.Types.Scope().Lookup("isStateMutation_Mutation").(*types.TypeName)
			if itn == nil {
				r.Error("unresolved anchor: handlerpb.isStateMutation_Mutation")
				return
			}
			it := itn.Type().Underlying().(*types.Interface)
			var wrappers []*types.TypeName
			for _, n := range hp.Types.Scope().Names() {
				if tn, ok := hp.Types.Scope().Lookup(n).(*types.TypeName); ok && tn != itn {
					if _, isS := tn.Type().Underlying().(*types.Struct); isS && types.Implements(types.NewPointer(tn.Type()), it) {
						wrappers = append(wrappers, tn)
					}
				}
			}
			if len(wrappers) < 2 {
				r.Error("expected >= 2 StateMutation wrappers, found %d", len(wrappers))
				return
			}
			if r.exhaustiveTypeSwitch(f, wrappers, "handlerpb.StateMutation") == 0 {
				r.Fail(f.Name()+":no-switch", f.Decl.Pos(), nil, "ApplyMutations no longer dispatches on the mutation kind")
			}
			put := r.P.FuncObj("dkv", "(*DB).Put")
			del := r.P.FuncObj("dkv", "(*DB).Delete")
			enc := r.P.FuncObj("workers/operator", "(*KeyedStateStore).encodeDBKey")
			// per case clause: which DB call
			var clauses []*ast.CaseClause
			for _, ts := range typeSwitches(info, f.Decl.Body) {
				for _, cl := range ts.Body.List {
					clauses = append(clauses, cl.(*ast.CaseClause))
				}
			}
			forClauses := func(fn func(nd ast.Node) bool) {
				for _, cc := range clauses {
					fn(cc)
				}
			}
			forClauses(func(nd ast.Node) bool {
				cc, ok := nd.(*ast.CaseClause)
				if !ok || len(cc.List) != 1 {
					return true
				}
				t := info.TypeOf(cc.List[0])
				if p, ok := t.(*types.Pointer); ok {
					t = p.Elem()
				}
				named, ok := t.(*types.Named)
				if !ok {
					return true
				}
				kind := named.Obj().Name() // StateMutation_Put / StateMutation_Delete
				var calls []*ast.CallExpr
				for _, st := range cc.Body {
					inspect(st, func(m ast.Node) bool {
						if c, ok := m.(*ast.CallExpr); ok {
							if fn := r.P.CalleeFunc(info, c); fn == put || fn == del {
								calls = append(calls, c)
							}
						}
						return true
					})
				}
				r.Site(cc.Pos(), "ApplyMutations case "+kind)
				want := put
				if strings.HasSuffix(kind, "_Delete") {
					want = del
				} else if !strings.HasSuffix(kind, "_Put") {
					return true
				}
				if len(calls) != 1 || r.P.CalleeFunc(info, calls[0]) != want {
					r.Fail(f.Name()+":case:"+kind, cc.Pos(), nil, "the %s case must perform exactly one %s", kind, prog.ShortFuncName(want))
					return true
				}
				c := calls[0]
				ec, ok := ast.Unparen(c.Args[0]).(*ast.CallExpr)
				if !ok || r.P.CalleeFunc(info, ec) != enc || len(ec.Args) != 3 || !r.isParam(f, ec.Args[0], 0) {
					r.Fail(f.Name()+":case-key:"+kind, c.Pos(), nil, "the %s case does not address encodeDBKey(subjectKey, namespace, entry key)", kind)
					return true
				}
				if s, ok := ast.Unparen(ec.Args[1]).(*ast.SelectorExpr); !ok || s.Sel.Name != "Namespace" {
					r.Fail(f.Name()+":case-namespace:"+kind, c.Pos(), nil, "the %s case does not use the mutation namespace's name", kind)
				}
				if s, ok := ast.Unparen(ec.Args[2]).(*ast.SelectorExpr); !ok || s.Sel.Name != "Key" {
					r.Fail(f.Name()+":case-entry-key:"+kind, c.Pos(), nil, "the %s case does not use the mutation's entry key", kind)
				}
				if want == put {
					if s, ok := ast.Unparen(c.Args[1]).(*ast.SelectorExpr); !ok || s.Sel.Name != "Value" {
						r.Fail(f.Name()+":case-value:"+kind, c.Pos(), nil, "the put case does not store the mutation's value")
					}
				}
				return true
			})
			// loops visit everything
			inspect(f.Decl.Body, func(nd ast.Node) bool {
				if rs, ok := nd.(*ast.RangeStmt); ok {
					for _, st := range rs.Body.List {
						if b, ok := st.(*ast.BranchStmt); ok {
							r.Fail(f.Name()+":partial", b.Pos(), nil, "ApplyMutations can skip mutations (%s)", b.Tok)
						}
					}
				}
				return true
			})
			// default does not silently succeed
			forClauses(func(nd ast.Node) bool {
				if cc, ok := nd.(*ast.CaseClause); ok && cc.List == nil {
					loud := false
					for _, st := range cc.Body {
						inspect(st, func(m ast.Node) bool {
							if c, ok := m.(*ast.CallExpr); ok {
								if id, ok := c.Fun.(*ast.Ident); ok && id.Name == "panic" {
									loud = true
								}
							}
							if _, ok := m.(*ast.ReturnStmt); ok {
								loud = true
							}
							return true
						})
					}
					if !loud {
						r.Fail(f.Name()+":default-silent", cc.Pos(), nil, "an unknown mutation kind is silently ignored")
					}
				}
				return true
			})
		}})

	register(&Obligation{ID: "C03.d", Props: []string{"C03", "C07", "C18"}, Template: "tombstone-position",
		Desc: "in every kv.MergeEntries of a read or compaction path, every input except the oldest comes from a producer that preserves tombstones; the user-facing DB.ScanPrefix drops tombstones after its last merge",
		Run: func(r *Run) {
			merge := r.P.FuncObj("dkv/kv", "MergeEntries")
			var raw func(fn *types.Func, depth int) (bool, string)
			raw = func(fn *types.Func, depth int) (bool, string) {
				fi := r.P.FuncInfoOf(fn)
				if fi == nil {
					return false, "unknown producer"
				}
				if f, _ := r.filtersTombstones(fi); f {
					return false, prog.ShortFuncName(fn) + " drops tombstones"
				}
				if depth > 3 {
					return true, ""
				}
				// a producer that merges: its own inputs (all of them) must be raw for the output to carry tombstones
				ok := true
				why := ""
				inspect(fi.Decl.Body, func(nd ast.Node) bool {
					if call, isC := nd.(*ast.CallExpr); isC && r.P.CalleeFunc(fi.Pkg.TypesInfo, call) == merge {
						ins, _ := r.mergeInputs(fi, call)
						for _, in := range ins {
							if in == nil {
								continue
							}
							if rr, w := raw(in, depth+1); !rr {
								ok, why = false, prog.ShortFuncName(fn)+" merges "+w
							}
						}
					}
					return true
				})
				return ok, why
			}
			n := 0
			for _, cs := range r.callSitesOf(merge, false) {
				if prog.IsTestSupport(cs.Use.Pkg.PkgPath) || cs.Call == nil || cs.Use.Scope == nil {
					continue
				}
				fi := cs.Use.Scope.Fn
				n++
				ins, ordered := r.mergeInputs(fi, cs.Call)
				where := fi.Name()
				r.Site(cs.Call.Pos(), "MergeEntries in "+where)
				if len(ins) == 0 {
					r.Error("undecided: %s: cannot determine the producers merged", where)
					continue
				}
				for i, in := range ins {
					if in == nil {
						r.Error("undecided: %s: merge input %d has no resolvable producer", where, i)
						continue
					}
					if ordered && i == len(ins)-1 {
						continue // the oldest input may already be filtered
					}
					if ok, why := raw(in, 0); !ok {
						r.Fail(where+":merge-input:"+in.Name(), cs.Call.Pos(), nil, "%s merges an input that has already lost its tombstones (%s): a delete in a newer memtable no longer masks the older value in a sealed memtable or an SST, so deleted entries reappear", where, why)
					}
				}
			}
			if n < 5 {
				r.Error("expected >= 5 MergeEntries call sites (List, DB, LevelList scans and three compaction merges), found %d", n)
			}
			// user-facing scan filters at the end
			dbScan := r.P.Func("dkv", "(*DB).ScanPrefix")
			r.Site(dbScan.Decl.Pos(), "DB.ScanPrefix drops tombstones after its merge")
			if f, _ := r.filtersTombstones(dbScan); !f {
				// acceptable only if every merged input is already filtered (then nothing needs filtering)
				allFiltered := true
				inspect(dbScan.Decl.Body, func(nd ast.Node) bool {
					if call, ok := nd.(*ast.CallExpr); ok && r.P.CalleeFunc(dbScan.Pkg.TypesInfo, call) == merge {
						ins, _ := r.mergeInputs(dbScan, call)
						for _, in := range ins {
							if in != nil {
								if rr, _ := raw(in, 0); rr {
									allFiltered = false
								}
							}
						}
					}
					return true
				})
				if !allFiltered {
					r.Fail(dbScan.Name()+":unfiltered-result", dbScan.Decl.Pos(), nil, "DB.ScanPrefix merges tombstone-carrying inputs but does not drop tombstones from its result: deleted entries are returned to the caller")
				}
			}
			// compaction: tombstones may only be dropped when merging into the base level — they are not dropped at all today
			tw := r.P.Func("dkv/sst", "writeEntry")
			if f, at := r.filtersTombstones(tw); f {
				r.Fail(tw.Name()+":drops-tombstones", at, nil, "the table writer drops tombstones: a compaction into a non-base level would resurrect older values below")
			}
			r.Site(tw.Decl.Pos(), "table writer keeps tombstones")
		}})
}

func pathsimIsNil(info *types.Info, e ast.Expr) (ast.Expr, bool, bool) {
	return pathsim.IsNilCompare(info, e)
}
