package rules

import (
	"go/ast"
	"go/token"
	"go/types"

	"verif/checker/internal/orderdom"
	"verif/checker/internal/pathsim"
	"verif/checker/internal/prog"
)

// methodCallOn matches x.f.M(...) where f is the given field and M one of names.
func methodCallOn(f *types.Var, names ...string) evPred {
	return func(c *pathsim.Ctx, ev *pathsim.Event) bool {
		if ev.Kind != pathsim.EvCall || ev.Call == nil {
			return false
		}
		sel, ok := ast.Unparen(ev.Call.Fun).(*ast.SelectorExpr)
		if !ok || prog.SelField(c.Info, sel.X) != f {
			return false
		}
		for _, n := range names {
			if sel.Sel.Name == n {
				return true
			}
		}
		return false
	}
}

// timeLessAtom: atom "A < B" over time.Time values, recognising A.Before(B), B.After(A)
// (and their negations through the engine's handling of !).
func timeLessAtom(name string, isA, isB func(c *pathsim.Ctx, e ast.Expr) bool) guardAtom {
	return guardAtom{Name: name, Match: func(c *pathsim.Ctx, e ast.Expr) (bool, bool) {
		call, ok := ast.Unparen(e).(*ast.CallExpr)
		if !ok || len(call.Args) != 1 {
			return false, false
		}
		sel, ok := ast.Unparen(call.Fun).(*ast.SelectorExpr)
		if !ok {
			return false, false
		}
		fn := c.P.CalleeFunc(c.Info, call)
		if fn == nil || fn.Pkg() == nil || fn.Pkg().Path() != "time" {
			return false, false
		}
		switch fn.Name() {
		case "Before":
			if isA(c, sel.X) && isB(c, call.Args[0]) {
				return false, true
			}
		case "After":
			if isB(c, sel.X) && isA(c, call.Args[0]) {
				return false, true
			}
		}
		return false, false
	}}
}

func init() {
	prop("C10",
		"(a) a due timer is deleted from the store before it is handed to the caller, and the firing loop stops exactly when the earliest timer is later than the composite watermark; (b) SetTimer stores a timer iff the watermark is strictly before it; (c) every cache mutation of a key-group queue is paired with the DKV mutation and every accessor loads from the DKV first; (d) a partial load (cache filled up) is not recorded as 'all data in cache'; (e) the sorted cache's size accounting uses the element replaced by a re-registration; (f) timer keys are laid out [2 key group BE][0x01][8 unix-nano BE][subject] consistently in encoder, decoder, comparator and scan prefix; (g) the partitioned queue re-establishes heap order after every partition mutation; (h) redeploy builds a fresh timer store on the restored DKV; (j) while timers exist only in the DKV an element enters the cache only if it does not sort after the last cached element (the cache stays a prefix of the key group's timers), and Push never raises allDataInCache.",
		"negative timestamps; the exact multiset of firings over histories.")

	register(&Obligation{ID: "C10.a", Props: []string{"C10", "C11"}, Template: "must-precede+order-domain",
		Desc: "TimerRegistry.AdvanceWatermark: the loop stops iff the earliest timer's timestamp is after the composite watermark; the timer is deleted from the store before it is yielded, and it is the earliest timer that is deleted and yielded",
		Run: func(r *Run) {
			f := r.P.Func("workers/operator", "(*TimerRegistry).AdvanceWatermark")
			info := f.Pkg.TypesInfo
			lit := firstLit(f.Decl.Body)
			if lit == nil {
				r.Error("undecided: AdvanceWatermark no longer returns an iterator literal")
				return
			}
			getE := r.P.FuncObj("workers/operator", "(*TimerStore).GetEarliest")
			del := r.P.FuncObj("workers/operator", "(*TimerStore).Delete")
			tsF := r.P.Field("workers/operator", "Timer", "Timestamp")
			keyF := r.P.Field("workers/operator", "Timer", "Key")
			// the variable(s) GetEarliest's results are first stored in (in the loop or in an extracted helper)
			var timerName, hasName string
			var loop ast.Stmt
			inspect(lit.Body, func(nd ast.Node) bool {
				switch x := nd.(type) {
				case *ast.ForStmt:
					if loop == nil && r.exprCalls(info, x.Body, getE) {
						loop = x
					}
				case *ast.RangeStmt:
					if loop == nil && r.exprCalls(info, x.Body, getE) {
						loop = x
					}
				case *ast.AssignStmt:
					if len(x.Rhs) == 1 {
						if call, ok := ast.Unparen(x.Rhs[0]).(*ast.CallExpr); ok && r.P.CalleeFunc(info, call) == getE {
							if id, ok := x.Lhs[0].(*ast.Ident); ok {
								timerName = id.Name
							}
							if len(x.Lhs) == 2 {
								if id, ok := x.Lhs[1].(*ast.Ident); ok {
									hasName = id.Name
								}
							}
						}
					}
				}
				return true
			})
			if timerName == "" || loop == nil {
				r.Fail(f.Name()+":no-earliest", lit.Pos(), nil, "the firing loop no longer asks the store for the earliest timer")
				return
			}
			isEarliest := func(in *types.Info, e ast.Expr) bool {
				call, idx := valueOrigin(in, e, 0)
				return call != nil && idx == 0 && r.P.CalleeFunc(in, call) == getE
			}
			var loopBody *ast.BlockStmt
			switch x := loop.(type) {
			case *ast.ForStmt:
				loopBody = x.Body
			case *ast.RangeStmt:
				loopBody = x.Body
			}
			// one iteration decided over all orderings of (timer timestamp, watermark) and "a timer is
			// left": the iteration goes on to delete (and fire) the timer iff there is one and its
			// timestamp is not after the composite watermark; otherwise it leaves the loop. The
			// composite watermark is the local computed with iteru.MinFunc over the upstreams, or the
			// registry field it was stored in.
			minFunc := r.P.FuncObj("util/iteru", "MinFunc")
			odNames := map[string]string{timerName + ".Timestamp": "timer"}
			if hasName != "" {
				odNames[hasName] = "?has"
			}
			upsF := r.P.Field("workers/operator", "TimerRegistry", "upstreams")
			ast.Inspect(f.Decl.Body, func(nd ast.Node) bool {
				if _, isLit := nd.(*ast.FuncLit); isLit {
					return false
				}
				switch x := nd.(type) {
				case *ast.AssignStmt:
					// (inspect: the MinFunc call may sit in an extracted helper)
					if len(x.Lhs) == 1 && len(x.Rhs) == 1 && r.exprCalls(info, x.Rhs[0], minFunc) {
						if id, ok := x.Lhs[0].(*ast.Ident); ok {
							odNames[id.Name] = "watermark"
						}
					}
				case *ast.RangeStmt:
					// a hand-written minimum over the upstreams (its correctness is C11.d's business)
					if prog.SelField(info, x.X) == upsF {
						ast.Inspect(x.Body, func(m ast.Node) bool {
							if as, ok := m.(*ast.AssignStmt); ok && as.Tok == token.ASSIGN {
								for _, l := range as.Lhs {
									if o, ok := prog.IdentObj(info, l).(*types.Var); ok && o.Type().String() == "time.Time" && (o.Pos() < x.Pos() || o.Pos() > x.End()) {
										odNames[o.Name()] = "watermark"
									}
								}
							}
							return true
						})
					}
				}
				return true
			})
			if f.Decl.Recv != nil && len(f.Decl.Recv.List) == 1 && len(f.Decl.Recv.List[0].Names) == 1 {
				odNames[f.Decl.Recv.List[0].Names[0].Name+".watermark"] = "watermark"
			}
			m := orderdom.New(info, odNames)
			m.ReturnIsEnd = true
			m.Effect = func(call *ast.CallExpr) bool { return r.P.CalleeFunc(info, call) == del }
			m.Inline = func(call *ast.CallExpr) (*ast.FuncType, *ast.BlockStmt) {
				if hf := r.P.FuncInfoOf(r.P.CalleeFunc(info, call)); isNewHelper(r.P, hf) {
					return hf.Decl.Type, hf.Decl.Body
				}
				return nil, nil
			}
			iter := loopBody.List
			if fs, ok := loop.(*ast.ForStmt); ok && fs.Cond != nil {
				// `for cond { body }` is `for { if !cond { break }; body }`
				guard := &ast.IfStmt{If: fs.Cond.Pos(), Cond: &ast.UnaryExpr{OpPos: fs.Cond.Pos(), Op: token.NOT, X: fs.Cond},
					Body: &ast.BlockStmt{Lbrace: fs.Cond.Pos(), List: []ast.Stmt{&ast.BranchStmt{TokPos: fs.Cond.Pos(), Tok: token.BREAK}}, Rbrace: fs.Cond.End()}}
				iter = append([]ast.Stmt{guard}, iter...)
			}
			res := m.CheckBody(iter, nil, func(e odEnv) orderdom.Value {
				has, mentioned := e.Bool["?has"]
				if !mentioned {
					has = true
				}
				if has && e.Rank["timer"] <= e.Rank["watermark"] {
					return orderdom.Sym("effect")
				}
				return orderdom.Sym("end")
			})
			r.finishOD(f.Name()+":stop-condition", loop.Pos(), res, "a timer is left and timer.Timestamp <= composite watermark: delete and fire it; otherwise stop")
			yieldObj := types.Object(nil)
			if len(lit.Type.Params.List) == 1 && len(lit.Type.Params.List[0].Names) == 1 {
				yieldObj = info.Defs[lit.Type.Params.List[0].Names[0]]
			}
			isYield := func(c *pathsim.Ctx, ev *pathsim.Event) bool {
				return ev.Kind == pathsim.EvCall && yieldObj != nil && prog.IdentObj(c.Info, ev.Call.Fun) == yieldObj
			}
			isDel := func(c *pathsim.Ctx, ev *pathsim.Event) bool {
				return callTo(del)(c, ev) && len(ev.Call.Args) == 1 && isEarliest(c.Info, ev.Call.Args[0])
			}
			// per iteration: delete precedes yield
			spec := &pathsim.Spec{Step: func(c *pathsim.Ctx, s pathsim.State, ev *pathsim.Event) []pathsim.State {
				if ev.Kind == pathsim.EvLoopIter {
					s.A = 0
					return []pathsim.State{s}
				}
				if isDel(c, ev) {
					s.A = 1
					return []pathsim.State{s}
				}
				if isYield(c, ev) {
					if s.A == 0 {
						c.Violate(ev.Pos, "[yield-before-delete] a due timer is handed to the caller before it is deleted from the store: if the consumer stops (or the batch fills) the timer stays stored and fires again")
					}
					if len(ev.Call.Args) != 2 {
						return nil
					}
					k, okk := ast.Unparen(ev.Call.Args[0]).(*ast.SelectorExpr)
					t, okt := ast.Unparen(ev.Call.Args[1]).(*ast.SelectorExpr)
					if !okk || !okt || prog.SelField(c.Info, k) != keyF || prog.SelField(c.Info, t) != tsF || !isEarliest(c.Info, k.X) || !isEarliest(c.Info, t.X) {
						c.Violate(ev.Pos, "[yield-value] the yielded (key, timestamp) are not those of the earliest timer")
					}
				}
				return nil
			}}
			r.Sim(lit, f.Name()+"$iter", spec)
			r.Site(lit.Pos(), "AdvanceWatermark firing loop")
		}})

	register(&Obligation{ID: "C10.b", Props: []string{"C10"}, Template: "guard",
		Desc: "TimerRegistry.SetTimer stores the timer iff the registry's watermark is strictly before its timestamp (a timer at or before the watermark is ignored), with the caller's key and time",
		Run: func(r *Run) {
			f := r.P.Func("workers/operator", "(*TimerRegistry).SetTimer")
			wm := r.P.Field("workers/operator", "TimerRegistry", "watermark")
			put := r.P.FuncObj("workers/operator", "(*TimerStore).Put")
			atom := timeLessAtom("watermark<t", func(c *pathsim.Ctx, e ast.Expr) bool { return prog.SelField(c.Info, e) == wm },
				func(c *pathsim.Ctx, e ast.Expr) bool { return r.isParam(f, e, 1) })
			_ = atom
			info := f.Pkg.TypesInfo
			tName := f.Obj.Type().(*types.Signature).Params().At(1).Name()
			recvName := f.Decl.Recv.List[0].Names[0].Name
			r.orderDomEffect(f, func(call *ast.CallExpr) bool { return r.P.CalleeFunc(info, call) == put },
				map[string]string{recvName + ".watermark": "wm", tName: "t"}, nil,
				func(e odEnv) orderdom.Value {
					if e.Rank["wm"] < e.Rank["t"] {
						return orderdom.Sym("effect")
					}
					return orderdom.Value{K: orderdom.KNil}
				}, "store the timer iff watermark < t")
			// and on the watermark<t path the Put does happen
			spec := &pathsim.Spec{}
			spec.Atom = func(c *pathsim.Ctx, e ast.Expr) (int, bool, bool) {
				if neg, ok := atom.Match(c, e); ok {
					return 0, neg, true
				}
				return 0, false, false
			}
			spec.Step = func(c *pathsim.Ctx, s pathsim.State, ev *pathsim.Event) []pathsim.State {
				if callTo(put)(c, ev) {
					if len(ev.Call.Args) != 2 || !r.isParam(f, ev.Call.Args[0], 0) || !r.isParam(f, ev.Call.Args[1], 1) {
						c.Violate(ev.Pos, "[put-args] the stored timer is not (key, t) as given")
					}
					s.A = 1
					return []pathsim.State{s}
				}
				return nil
			}
			r.Sim(f.Decl, f.Name(), spec)
		}})

	register(&Obligation{ID: "C10.c", Props: []string{"C10"}, Template: "paired-update",
		Desc: "KeyGroupPriorityQueue is a write-through cache: Push performs cache.Push and db.Put, Delete performs cache.Delete and db.Delete, Pop deletes the popped element from the DKV, each with the same element; Peek, Pop, Push, IsEmpty and Delete call loadFromDB before touching the cache",
		Run: func(r *Run) {
			cache := r.P.Field("workers/operator", "KeyGroupPriorityQueue", "cache")
			db := r.P.Field("workers/operator", "KeyGroupPriorityQueue", "db")
			load := r.P.FuncObj("workers/operator", "(*KeyGroupPriorityQueue).loadFromDB")
			anyCache := func(c *pathsim.Ctx, ev *pathsim.Event) bool {
				if ev.Kind != pathsim.EvCall || ev.Call == nil {
					return false
				}
				sel, ok := ast.Unparen(ev.Call.Fun).(*ast.SelectorExpr)
				return ok && prog.SelField(c.Info, sel.X) == cache
			}
			for _, n := range []string{"Peek", "Pop", "Push", "IsEmpty", "Delete"} {
				f := r.P.Func("workers/operator", "(*KeyGroupPriorityQueue)."+n)
				k := r.mustPrecede(f.Decl, f.Name(), "loadFromDB", "cache access", callTo(load), anyCache)
				if k == 0 {
					r.Fail(f.Name()+":no-cache", f.Decl.Pos(), nil, "%s no longer uses the cache", f.Name())
				}
			}
			type pair struct{ fn, cacheM, dbM string }
			for _, p := range []pair{{"Push", "Push", "Put"}, {"Delete", "Delete", "Delete"}} {
				f := r.P.Func("workers/operator", "(*KeyGroupPriorityQueue)."+p.fn)
				spec := &pathsim.Spec{}
				if p.fn == "Push" {
					spec.Atom = r.pushAtoms(f)
					spec.AtomDeps = map[int][]types.Object{0: {r.P.Field("workers/operator", "KeyGroupPriorityQueue", "allDataInCache")}}
				}
				spec.Step = func(c *pathsim.Ctx, s pathsim.State, ev *pathsim.Event) []pathsim.State {
					if p.fn == "Push" {
						s = r.pushInvalidate(c, s, ev)
					}
					if methodCallOn(cache, p.cacheM)(c, ev) {
						if len(ev.Call.Args) < 1 || !r.isParam(f, ev.Call.Args[0], 0) {
							c.Violate(ev.Pos, "[cache-arg] the cache is not updated with the element passed to %s", p.fn)
						}
						s.A |= 1
						return []pathsim.State{s}
					}
					if methodCallOn(db, p.dbM)(c, ev) {
						if len(ev.Call.Args) < 1 || !r.isParam(f, ev.Call.Args[0], 0) {
							c.Violate(ev.Pos, "[db-arg] the DKV is not updated with the element passed to %s", p.fn)
						}
						s.A |= 2
						return []pathsim.State{s}
					}
					if (ev.Kind == pathsim.EvReturn || ev.Kind == pathsim.EvExit) && s.A != 3 {
						// Push may leave an element in the DKV only while the cache is known to be partial
						// (it is loaded from there once the cache has drained, C10.d)
						if !(p.fn == "Push" && s.A == 2 && s.V[0] == pathsim.False) {
							c.Violate(ev.Pos, "[unpaired] %s returns having updated only %s: the cache and the DKV diverge (a timer is lost on reload, or fires again after restore)", p.fn, [...]string{"nothing", "the cache", "the DKV"}[s.A])
						}
					}
					return []pathsim.State{s}
				}
				r.Sim(f.Decl, f.Name(), spec)
				r.Site(f.Decl.Pos(), f.Name()+": cache and DKV updated together")
			}
			// Pop: db.Delete(min) iff ok
			pop := r.P.Func("workers/operator", "(*KeyGroupPriorityQueue).Pop")
			pi := pop.Pkg.TypesInfo
			var minVar, okVar types.Object
			inspect(pop.Decl.Body, func(nd ast.Node) bool {
				if as, ok := nd.(*ast.AssignStmt); ok && len(as.Lhs) == 2 && len(as.Rhs) == 1 {
					if call, ok := ast.Unparen(as.Rhs[0]).(*ast.CallExpr); ok {
						if sel, ok := ast.Unparen(call.Fun).(*ast.SelectorExpr); ok && prog.SelField(pi, sel.X) == cache && sel.Sel.Name == "Pop" {
							minVar, okVar = prog.IdentObj(pi, as.Lhs[0]), prog.IdentObj(pi, as.Lhs[1])
						}
					}
				}
				return true
			})
			if minVar == nil {
				r.Fail(pop.Name()+":shape", pop.Decl.Pos(), nil, "KeyGroupPriorityQueue.Pop no longer pops from the cache")
			} else {
				spec := &pathsim.Spec{}
				spec.Atom = func(c *pathsim.Ctx, e ast.Expr) (int, bool, bool) {
					if prog.IdentObj(c.Info, e) == okVar {
						return 0, false, true
					}
					return 0, false, false
				}
				spec.Step = func(c *pathsim.Ctx, s pathsim.State, ev *pathsim.Event) []pathsim.State {
					if methodCallOn(db, "Delete")(c, ev) {
						if len(ev.Call.Args) != 1 || prog.IdentObj(c.Info, ev.Call.Args[0]) != minVar {
							c.Violate(ev.Pos, "[db-arg] Pop deletes something other than the popped element from the DKV")
						}
						if s.V[0] != pathsim.True {
							c.Violate(ev.Pos, "[delete-without-pop] Pop deletes from the DKV although nothing was popped")
						}
						s.A = 1
						return []pathsim.State{s}
					}
					if (ev.Kind == pathsim.EvReturn || ev.Kind == pathsim.EvExit) && s.A == 0 && s.V[0] != pathsim.False {
						c.Violate(ev.Pos, "[pop-without-delete] Pop can return a popped timer without deleting it from the DKV: it fires again after the cache is reloaded or the operator restored")
					}
					return nil
				}
				r.Sim(pop.Decl, pop.Name(), spec)
				r.Site(pop.Decl.Pos(), pop.Name()+": popped element deleted from the DKV")
			}
			// Push: eviction marks the cache as partial
			push := r.P.Func("workers/operator", "(*KeyGroupPriorityQueue).Push")
			all := r.P.Field("workers/operator", "KeyGroupPriorityQueue", "allDataInCache")
			// A: an element was evicted on this path; B: the flag's last value on this path is false.
			// The two updates may come in either order (both happen under the queue's single-threaded
			// use); what matters is the state Push leaves behind.
			spec := &pathsim.Spec{Step: func(c *pathsim.Ctx, s pathsim.State, ev *pathsim.Event) []pathsim.State {
				if methodCallOn(cache, "PopLast")(c, ev) {
					s.A = 1
					return []pathsim.State{s}
				}
				if ev.Kind == pathsim.EvAssign && len(ev.Lhs) == 1 && len(ev.Rhs) == 1 && prog.SelField(c.Info, ev.Lhs[0]) == all {
					s.B = 0
					if tv, ok := c.Info.Types[ev.Rhs[0]]; ok && tv.Value != nil && tv.Value.String() == "false" {
						s.B = 1
					} else {
						c.Violate(ev.Pos, "[flag-raised] Push assigns allDataInCache something other than false: only a scan that ran to its end (loadFromDB) knows that every timer of the key group is cached; raising the flag here hides the timers that exist only in the DKV")
					}
					return []pathsim.State{s}
				}
				if (ev.Kind == pathsim.EvReturn || ev.Kind == pathsim.EvExit) && s.A == 1 && s.B == 0 {
					c.Violate(ev.Pos, "[evict-without-flag] an element is evicted from the cache without clearing allDataInCache: the evicted timer exists only in the DKV and is never reloaded")
				}
				return nil
			}}
			r.Sim(push.Decl, push.Name(), spec)
		}})

	register(&Obligation{ID: "C10.d", Props: []string{"C10"}, Template: "guard",
		Desc: "KeyGroupPriorityQueue.loadFromDB records allDataInCache = true only when the scan ran to its end, not when it stopped because the cache filled up; it scans the prefix [key group BE][0x01] and loads only when the cache is empty and not known complete",
		Run: func(r *Run) {
			f := r.P.Func("workers/operator", "(*KeyGroupPriorityQueue).loadFromDB")
			info := f.Pkg.TypesInfo
			all := r.P.Field("workers/operator", "KeyGroupPriorityQueue", "allDataInCache")
			cache := r.P.Field("workers/operator", "KeyGroupPriorityQueue", "cache")
			isFullAtom := guardAtom{Name: "cache.IsFull()", Match: func(c *pathsim.Ctx, e ast.Expr) (bool, bool) {
				call, ok := ast.Unparen(e).(*ast.CallExpr)
				if !ok {
					return false, false
				}
				sel, ok := ast.Unparen(call.Fun).(*ast.SelectorExpr)
				return false, ok && prog.SelField(c.Info, sel.X) == cache && sel.Sel.Name == "IsFull"
			}}
			// boolean local possibly carrying the "complete" flag
			var flag types.Object
			inspect(f.Decl.Body, func(nd ast.Node) bool {
				if as, ok := nd.(*ast.AssignStmt); ok && len(as.Lhs) == 1 && len(as.Rhs) == 1 && prog.SelField(info, as.Lhs[0]) == all {
					if o := prog.IdentObj(info, as.Rhs[0]); o != nil {
						if _, isVar := o.(*types.Var); isVar {
							flag = o
						}
					}
				}
				return true
			})
			var scanLoop *ast.RangeStmt
			scan := r.P.FuncObj("dkv", "(*DB).ScanPrefix")
			inspect(f.Decl.Body, func(nd ast.Node) bool {
				if rs, ok := nd.(*ast.RangeStmt); ok {
					if call, ok := ast.Unparen(rs.X).(*ast.CallExpr); ok && r.P.CalleeFunc(info, call) == scan {
						scanLoop = rs
					}
				}
				return true
			})
			if scanLoop == nil {
				r.Fail(f.Name()+":no-scan", f.Decl.Pos(), nil, "loadFromDB no longer scans the DKV")
				return
			}
			spec := &pathsim.Spec{}
			spec.Atom = func(c *pathsim.Ctx, e ast.Expr) (int, bool, bool) {
				if neg, ok := isFullAtom.Match(c, e); ok {
					return 0, neg, true
				}
				return 0, false, false
			}
			n := 0
			spec.Step = func(c *pathsim.Ctx, s pathsim.State, ev *pathsim.Event) []pathsim.State {
				// B tracks the flag local: 1 true, 2 false; A: 1 = the scan loop was left through break while full
				if ev.Kind == pathsim.EvAssign && len(ev.Lhs) == 1 && len(ev.Rhs) == 1 {
					if flag != nil && prog.IdentObj(c.Info, ev.Lhs[0]) == flag {
						if tv, ok := c.Info.Types[ev.Rhs[0]]; ok && tv.Value != nil {
							if tv.Value.String() == "true" {
								s.B = 1
							} else {
								s.B = 2
							}
							return []pathsim.State{s}
						}
						s.B = 0
						return []pathsim.State{s}
					}
					if prog.SelField(c.Info, ev.Lhs[0]) == all {
						n++
						val := int32(0) // unknown
						if tv, ok := c.Info.Types[ev.Rhs[0]]; ok && tv.Value != nil {
							if tv.Value.String() == "true" {
								val = 1
							} else {
								val = 2
							}
						} else if flag != nil && prog.IdentObj(c.Info, ev.Rhs[0]) == flag {
							val = s.B
						} else if u, ok := ast.Unparen(ev.Rhs[0]).(*ast.UnaryExpr); ok && u.Op == token.NOT {
							if _, isFull := isFullAtom.Match(c, u.X); isFull {
								val = 2 // !IsFull(): false whenever the cache is full (conservative)
								if s.A == 0 {
									val = 1
								}
							}
						}
						if s.A == 1 && val != 2 {
							c.Violate(ev.Pos, "[partial-load-marked-complete] the scan stopped because the cache filled up, yet allDataInCache is set to true: the timers beyond the cache are never loaded once the cache drains (they are lost)")
						}
					}
				}
				if ev.Kind == pathsim.EvLoopExit && ev.Node == ast.Node(scanLoop) {
					if s.V[0] == pathsim.True {
						s.A = 1
					}
					return []pathsim.State{s}
				}
				return nil
			}
			r.Sim(f.Decl, f.Name(), spec)
			r.Site(scanLoop.Pos(), "loadFromDB scan loop")
			if n == 0 {
				r.Fail(f.Name()+":never-complete", f.Decl.Pos(), nil, "loadFromDB never records that the cache is complete: every access rescans the DKV")
			}
			// scan prefix: [keyGroup BE16][0x01]
			kgF := r.P.Field("workers/operator", "KeyGroupPriorityQueue", "keyGroup")
			okPrefix, okSchema, okLen := false, false, false
			inspect(f.Decl.Body, func(nd ast.Node) bool {
				switch x := nd.(type) {
				case *ast.CallExpr:
					if sel, ok := ast.Unparen(x.Fun).(*ast.SelectorExpr); ok && sel.Sel.Name == "PutUint16" && len(x.Args) == 2 {
						if isSelectorOf(info, sel.X, "encoding/binary", "BigEndian") && exprUsesField(info, x.Args[1], kgF) && sliceBounds(info, x.Args[0]) == "0:2" {
							okPrefix = true
						}
					}
					if id, ok := x.Fun.(*ast.Ident); ok && id.Name == "make" && len(x.Args) == 2 {
						if tv, ok := info.Types[x.Args[1]]; ok && tv.Value != nil && tv.Value.String() == "3" {
							okLen = true
						}
					}
					if fn := r.P.CalleeFunc(info, x); fn != nil && fn.Name() == "PutBytes" && exprUsesField(info, x, kgF) {
						okPrefix = true
					}
				case *ast.AssignStmt:
					if len(x.Lhs) == 1 && len(x.Rhs) == 1 {
						if ix, ok := ast.Unparen(x.Lhs[0]).(*ast.IndexExpr); ok {
							if tv, ok := info.Types[ix.Index]; ok && tv.Value != nil && tv.Value.String() == "2" {
								if tv2, ok := info.Types[x.Rhs[0]]; ok && tv2.Value != nil && tv2.Value.String() == "1" {
									okSchema = true
								}
							}
						}
					}
				}
				return true
			})
			r.Site(f.Decl.Pos(), "loadFromDB scan prefix [key group BE][0x01]")
			if !okPrefix || !okSchema || !okLen {
				r.Fail(f.Name()+":scan-prefix", f.Decl.Pos(), nil, "the timer scan prefix is not the 3 bytes [key group big-endian][schema 0x01] (prefix=%v schema=%v len=%v): timers of another key group / state entries would be loaded, or none", okPrefix, okSchema, okLen)
			}
		}})

	register(&Obligation{ID: "C10.e", Props: []string{"C10", "C19"}, Template: "accounting",
		Desc: "ds.SortedCache accounts bytes by contents: Push subtracts the element returned by ReplaceOrInsert when one was replaced; Pop / PopLast / Delete subtract the removed element only when something was removed; IsFull compares byteSize with the limit",
		Run: func(r *Run) {
			push := r.P.Func("util/ds", "(*SortedCache).Push")
			info := push.Pkg.TypesInfo
			size := r.P.Field("util/ds", "SortedCache", "byteSize")
			r.Site(push.Decl.Pos(), "SortedCache.Push uses the replaced element")
			used := false
			found := false
			inspect(push.Decl.Body, func(nd ast.Node) bool {
				switch x := nd.(type) {
				case *ast.ExprStmt:
					if call, ok := ast.Unparen(x.X).(*ast.CallExpr); ok {
						if sel, ok := ast.Unparen(call.Fun).(*ast.SelectorExpr); ok && sel.Sel.Name == "ReplaceOrInsert" {
							found = true
						}
					}
				case *ast.AssignStmt:
					if len(x.Rhs) == 1 {
						if call, ok := ast.Unparen(x.Rhs[0]).(*ast.CallExpr); ok {
							if sel, ok := ast.Unparen(call.Fun).(*ast.SelectorExpr); ok && sel.Sel.Name == "ReplaceOrInsert" {
								found = true
								if len(x.Lhs) == 2 {
									if id, ok := x.Lhs[0].(*ast.Ident); ok && id.Name != "_" {
										used = true
									}
								}
							}
						}
					}
				}
				return true
			})
			if !found {
				r.Error("undecided: SortedCache.Push no longer inserts with ReplaceOrInsert")
				return
			}
			if !used {
				r.Fail(push.Name()+":replaced-ignored", push.Decl.Pos(), nil, "Push adds len(value) to byteSize but ignores the element ReplaceOrInsert replaced: registering the same timer again grows the accounted size although the contents are unchanged, until the cache counts as full and evicts live timers")
			} else {
				// a subtraction guarded by the replaced flag
				sub := false
				inspect(push.Decl.Body, func(nd ast.Node) bool {
					if as, ok := nd.(*ast.AssignStmt); ok && as.Tok == token.SUB_ASSIGN && len(as.Lhs) == 1 && prog.SelField(info, as.Lhs[0]) == size {
						sub = true
					}
					return true
				})
				if !sub {
					r.Fail(push.Name()+":replaced-not-subtracted", push.Decl.Pos(), nil, "Push obtains the replaced element but does not subtract its size")
				}
				// ... on every path where something was replaced (the flag is true)
				var okVar types.Object
				inspect(push.Decl.Body, func(nd ast.Node) bool {
					if as, isAs := nd.(*ast.AssignStmt); isAs && len(as.Lhs) == 2 && len(as.Rhs) == 1 {
						if call, isCall := ast.Unparen(as.Rhs[0]).(*ast.CallExpr); isCall {
							if sel, isSel := ast.Unparen(call.Fun).(*ast.SelectorExpr); isSel && sel.Sel.Name == "ReplaceOrInsert" {
								okVar = prog.IdentObjPlain(info, as.Lhs[1])
							}
						}
					}
					return true
				})
				if okVar != nil && sub {
					spec := &pathsim.Spec{AtomDeps: map[int][]types.Object{0: {okVar}}}
					spec.Atom = func(c *pathsim.Ctx, e ast.Expr) (int, bool, bool) {
						if prog.IdentObj(c.Info, e) == okVar {
							return 0, false, true
						}
						return 0, false, false
					}
					spec.Step = func(c *pathsim.Ctx, s pathsim.State, ev *pathsim.Event) []pathsim.State {
						if ev.Kind == pathsim.EvAssign && ev.Tok == token.SUB_ASSIGN && len(ev.Lhs) == 1 && prog.SelField(c.Info, ev.Lhs[0]) == size {
							s.A = 1
							return []pathsim.State{s}
						}
						if (ev.Kind == pathsim.EvReturn || ev.Kind == pathsim.EvExit) && s.A == 0 && s.V[0] != pathsim.False {
							c.Violate(ev.Pos, "[replaced-not-subtracted] Push can return after replacing an element without subtracting its size: repeated registration of the same timer inflates the accounted size")
						}
						return nil
					}
					r.Sim(push.Decl, push.Name(), spec)
				}
			}
			for _, n := range []string{"Pop", "PopLast", "Delete"} {
				f := r.P.Func("util/ds", "(*SortedCache)."+n)
				fi := f.Pkg.TypesInfo
				var okVar types.Object
				inspect(f.Decl.Body, func(nd ast.Node) bool {
					if as, ok := nd.(*ast.AssignStmt); ok && len(as.Lhs) == 2 && len(as.Rhs) == 1 {
						if _, ok := ast.Unparen(as.Rhs[0]).(*ast.CallExpr); ok {
							okVar = prog.IdentObj(fi, as.Lhs[1])
						}
					}
					return true
				})
				k := r.guarded(f.Decl, f.Name(), "byteSize-=", []guardAtom{identAtom("removed", func() types.Object { return okVar })},
					func(c *pathsim.Ctx, ev *pathsim.Event) bool {
						return ev.Kind == pathsim.EvAssign && ev.Tok == token.SUB_ASSIGN && len(ev.Lhs) == 1 && prog.SelField(c.Info, ev.Lhs[0]) == size
					}, func(v []pathsim.Tri) bool { return v[0] == pathsim.True }, "an element was removed")
				if k == 0 {
					r.Fail(f.Name()+":no-accounting", f.Decl.Pos(), nil, "%s removes an element without reducing byteSize", f.Name())
				}
			}
			full := r.P.Func("util/ds", "(*SortedCache).IsFull")
			r.orderDomFunc(full, map[string]string{"s.byteSize": "size", "s.maxSizeBytes": "limit"}, nil,
				func(e odEnv) orderdom.Value { return orderdom.Bool(e.Rank["size"] >= e.Rank["limit"]) }, "byteSize >= maxSizeBytes")
		}})

	register(&Obligation{ID: "C10.g", Props: []string{"C10", "C19"}, Template: "paired-update",
		Desc: "ds.PartitionedPriorityQueue: Push, Delete and Pop re-establish the heap order with heap.Fix(partition.Index()) after mutating a partition, for the partition that was mutated; Push/Delete address the partition selected by getPartitionIndex(item)",
		Run: func(r *Run) {
			fix := r.P.FuncObj("util/ds", "(*Heap).Fix")
			idx := r.P.FuncObj("util/ds", "QueuePartition.Index")
			for _, n := range []struct{ fn, mut string }{{"Push", "Push"}, {"Delete", "Delete"}, {"Pop", "Pop"}} {
				f := r.P.Func("util/ds", "(*PartitionedPriorityQueue)."+n.fn)
				info := f.Pkg.TypesInfo
				mutFn := r.P.FuncObj("util/ds", "QueuePartition."+n.mut)
				var part types.Object
				spec := &pathsim.Spec{}
				var okVar types.Object
				if n.fn == "Pop" {
					inspect(f.Decl.Body, func(nd ast.Node) bool {
						if as, ok := nd.(*ast.AssignStmt); ok && len(as.Lhs) == 2 && len(as.Rhs) == 1 {
							if call, ok := ast.Unparen(as.Rhs[0]).(*ast.CallExpr); ok && r.P.CalleeFunc(info, call) == mutFn {
								okVar = prog.IdentObj(info, as.Lhs[1])
							}
						}
						return true
					})
					spec.Atom = func(c *pathsim.Ctx, e ast.Expr) (int, bool, bool) {
						if okVar != nil && prog.IdentObj(c.Info, e) == okVar {
							return 0, false, true
						}
						return 0, false, false
					}
					spec.AtomDeps = map[int][]types.Object{0: {okVar}}
				}
				spec.Step = func(c *pathsim.Ctx, s pathsim.State, ev *pathsim.Event) []pathsim.State {
					if callTo(mutFn)(c, ev) {
						if sel, ok := ast.Unparen(ev.Call.Fun).(*ast.SelectorExpr); ok {
							part = prog.IdentObj(c.Info, sel.X)
						}
						s.A = 1
						return []pathsim.State{s}
					}
					if callTo(fix)(c, ev) {
						good := false
						if len(ev.Call.Args) == 1 {
							if call, ok := deref(c.Info, ev.Call.Args[0]).(*ast.CallExpr); ok && c.P.CalleeFunc(c.Info, call) == idx {
								if sel, ok := ast.Unparen(call.Fun).(*ast.SelectorExpr); ok && prog.IdentObj(c.Info, sel.X) == part {
									good = true
								}
							}
						}
						if !good {
							c.Violate(ev.Pos, "[fix-index] heap.Fix is not given the mutated partition's Index()")
						}
						if s.A == 1 {
							s.A = 2
						}
						return []pathsim.State{s}
					}
					if (ev.Kind == pathsim.EvReturn || ev.Kind == pathsim.EvExit) && s.A == 1 {
						// Pop: when nothing was popped no fix is needed
						if n.fn == "Pop" && s.V[0] == pathsim.False {
							return nil
						}
						c.Violate(ev.Pos, "[no-fix] %s returns after mutating a partition without heap.Fix: the heap root is no longer the partition with the earliest timer, so timers fire out of order", n.fn)
					}
					return nil
				}
				r.Sim(f.Decl, f.Name(), spec)
				r.Site(f.Decl.Pos(), f.Name()+": heap fixed after partition mutation")
				if n.fn != "Pop" {
					// partition := p.partitions[p.getPartitionIndex(item)]
					gpi := r.P.Field("util/ds", "PartitionedPriorityQueue", "getPartitionIndex")
					parts := r.P.Field("util/ds", "PartitionedPriorityQueue", "partitions")
					ok := false
					inspect(f.Decl.Body, func(nd ast.Node) bool {
						if ix, isIx := nd.(*ast.IndexExpr); isIx && prog.SelField(info, ix.X) == parts {
							if call, isCall := deref(info, ix.Index).(*ast.CallExpr); isCall && prog.SelField(info, call.Fun) == gpi && len(call.Args) == 1 && r.isParam(f, deref(info, call.Args[0]), 0) {
								ok = true
							}
						}
						return true
					})
					if !ok {
						r.Fail(f.Name()+":partition-select", f.Decl.Pos(), nil, "%s does not address partitions[getPartitionIndex(item)]", n.fn)
					}
				}
			}
			// Heap.Fix: down, and up only if it did not move down; -1 ignored
		}})

	register(&Obligation{ID: "C10.i", Props: []string{"C10", "C06"}, Template: "index-alignment",
		Desc: "NewTimerStore: partition i of the timer queue is the DKV-backed queue of key group keyGroupRange.Start+i (the i-th element of KeyGroups()), and getPartitionIndex maps a timer key's group back with IndexOf = kg - Start; KeyGroups / IndexOf / Size are the matching linear forms",
		Run: func(r *Run) {
			f := r.P.Func("workers/operator", "NewTimerStore")
			info := f.Pkg.TypesInfo
			sig := f.Obj.Type().(*types.Signature)
			dbP, rangeP := sig.Params().At(0), sig.Params().At(2)
			nq := r.P.FuncObj("workers/operator", "NewKeyGroupPriorityQueue")
			kgs := r.P.FuncObj("partitioning", "KeyGroupRange.KeyGroups")
			sizeF := r.P.FuncObj("partitioning", "KeyGroupRange.Size")
			indexOf := r.P.FuncObj("partitioning", "KeyGroupRange.IndexOf")
			fromBytes := r.P.FuncObj("partitioning", "KeyGroupFromBytes")
			onRange := func(call *ast.CallExpr, fn *types.Func) bool {
				if r.P.CalleeFunc(info, call) != fn {
					return false
				}
				sel, ok := ast.Unparen(call.Fun).(*ast.SelectorExpr)
				return ok && prog.IdentObj(info, sel.X) == types.Object(rangeP)
			}
			filled := false
			inspect(f.Decl.Body, func(nd ast.Node) bool {
				rs, ok := nd.(*ast.RangeStmt)
				if !ok {
					return true
				}
				src, ok := ast.Unparen(rs.X).(*ast.CallExpr)
				if !ok {
					return true
				}
				overGroups, overSize := onRange(src, kgs), onRange(src, sizeF)
				if !overGroups && !overSize {
					return true
				}
				i := prog.IdentObj(info, rs.Key)
				var kg types.Object
				if rs.Value != nil {
					kg = prog.IdentObj(info, rs.Value)
				}
				for _, st := range rs.Body.List {
					as, ok := st.(*ast.AssignStmt)
					if !ok || len(as.Lhs) != 1 || len(as.Rhs) != 1 {
						continue
					}
					ix, ok := ast.Unparen(as.Lhs[0]).(*ast.IndexExpr)
					call, ok2 := ast.Unparen(as.Rhs[0]).(*ast.CallExpr)
					if !ok || !ok2 || r.P.CalleeFunc(info, call) != nq || len(call.Args) < 2 {
						continue
					}
					r.Site(as.Pos(), "partitions[i] = NewKeyGroupPriorityQueue(db, key group of slot i, ...)")
					okIdx := i != nil && prog.IdentObj(info, ix.Index) == i
					okDB := prog.IdentObj(info, call.Args[0]) == types.Object(dbP)
					arg := stripConv(info, call.Args[1])
					okKG := false
					if overGroups && kg != nil && prog.IdentObj(info, arg) == kg {
						okKG = true
					}
					if overSize && i != nil {
						if l, ok := linearOf(info, nil, arg); ok && sameLinear(l, map[string]int{rangeP.Name() + ".Start": 1, i.Name(): 1}) {
							okKG = true
						}
					}
					if okIdx && okDB && okKG {
						filled = true
					} else {
						r.Fail(f.Name()+":slot-group", as.Pos(), nil, "slot i of the timer queue's partitions is not the queue of the range's i-th key group (index by the loop index: %v, same db: %v, key group Start+i: %v): an operator whose range does not start at 0 would persist timers under one key group and reload them from another, so timers are lost on restore or cache overflow", okIdx, okDB, okKG)
					}
				}
				return true
			})
			if !filled {
				r.Fail(f.Name()+":slots", f.Decl.Pos(), nil, "NewTimerStore does not fill partitions[i] with the queue of the range's i-th key group")
			}
			// getPartitionIndex
			okIndex := false
			inspect(f.Decl.Body, func(nd ast.Node) bool {
				lit, ok := nd.(*ast.FuncLit)
				if !ok || lit.Type.Results == nil || len(lit.Type.Params.List) != 1 {
					return true
				}
				inspect(lit.Body, func(m ast.Node) bool {
					ret, ok := m.(*ast.ReturnStmt)
					if !ok || len(ret.Results) != 1 {
						return true
					}
					var kgArg ast.Expr
					if call, ok := ast.Unparen(ret.Results[0]).(*ast.CallExpr); ok && onRange(call, indexOf) && len(call.Args) == 1 {
						kgArg = call.Args[0]
					} else if l, ok := linearOf(info, nil, ret.Results[0]); ok && len(l) == 2 && l[rangeP.Name()+".Start"] == -1 {
						for k, v := range l {
							if v == 1 {
								inspect(ret.Results[0], func(q ast.Node) bool {
									if id, ok := q.(*ast.Ident); ok && id.Name == k {
										kgArg = id
									}
									return true
								})
							}
						}
					}
					if kgArg == nil {
						return true
					}
					r.Site(ret.Pos(), "getPartitionIndex = IndexOf(key group of the timer key)")
					def := resolveLocal(info, lit.Body, kgArg)
					if c2, ok := ast.Unparen(def).(*ast.CallExpr); ok && r.P.CalleeFunc(info, c2) == fromBytes && len(c2.Args) == 1 {
						if sl, ok := ast.Unparen(c2.Args[0]).(*ast.SliceExpr); ok && sl.High != nil {
							lo, hi := 0, -1
							if sl.Low != nil {
								if tv, ok := info.Types[sl.Low]; ok && tv.Value != nil {
									sscanInt(tv.Value.String(), &lo)
								}
							}
							if tv, ok := info.Types[sl.High]; ok && tv.Value != nil {
								sscanInt(tv.Value.String(), &hi)
							}
							if lo == 0 && hi == 2 && prog.IdentObj(info, sl.X) == info.Defs[lit.Type.Params.List[0].Names[0]] {
								okIndex = true
							}
						}
					}
					return true
				})
				return true
			})
			if !okIndex {
				r.Fail(f.Name()+":partition-index", f.Decl.Pos(), nil, "getPartitionIndex is not keyGroupRange.IndexOf(KeyGroupFromBytes(key[0:2])): a timer would be queued in a partition other than its key group's")
			}
			// the partitioning helpers agree: KeyGroups()[i] = Start+i, IndexOf(kg) = kg-Start, Size = End-Start
			for _, h := range []struct {
				name string
				want map[string]int
			}{{"KeyGroupRange.IndexOf", map[string]int{"kg": 1, "r.Start": -1}}, {"KeyGroupRange.Size", map[string]int{"r.End": 1, "r.Start": -1}}} {
				hf := r.P.Func("partitioning", h.name)
				ok := false
				inspect(hf.Decl.Body, func(nd ast.Node) bool {
					if ret, isR := nd.(*ast.ReturnStmt); isR && len(ret.Results) == 1 {
						if l, okL := linearOf(hf.Pkg.TypesInfo, hf.Decl.Body, ret.Results[0]); okL && sameLinear(l, h.want) {
							ok = true
						}
					}
					return true
				})
				r.Site(hf.Decl.Pos(), hf.Name()+" linear form")
				if !ok {
					r.Fail(hf.Name()+":linear", hf.Decl.Pos(), nil, "%s is not the linear form %v", hf.Name(), h.want)
				}
			}
			kf := r.P.Func("partitioning", "KeyGroupRange.KeyGroups")
			ki := kf.Pkg.TypesInfo
			okK := false
			inspect(kf.Decl.Body, func(nd ast.Node) bool {
				rs, ok := nd.(*ast.RangeStmt)
				if !ok {
					return true
				}
				src, ok := ast.Unparen(rs.X).(*ast.CallExpr)
				if !ok || r.P.CalleeFunc(ki, src) != sizeF {
					return true
				}
				i := prog.IdentObj(ki, rs.Key)
				for _, st := range rs.Body.List {
					if as, ok := st.(*ast.AssignStmt); ok && len(as.Lhs) == 1 && len(as.Rhs) == 1 {
						if ix, ok := ast.Unparen(as.Lhs[0]).(*ast.IndexExpr); ok && i != nil && prog.IdentObj(ki, ix.Index) == i {
							if l, ok := linearOf(ki, nil, as.Rhs[0]); ok && sameLinear(l, map[string]int{"r.Start": 1, i.Name(): 1}) {
								okK = true
							}
						}
					}
				}
				return true
			})
			r.Site(kf.Decl.Pos(), "KeyGroups()[i] = Start + i")
			if !okK {
				r.Fail(kf.Name()+":linear", kf.Decl.Pos(), nil, "KeyGroups() must list Start+i at index i for i < Size()")
			}
		}})

	register(&Obligation{ID: "C10.h", Props: []string{"C10", "C15", "C06"}, Template: "value-identity",
		Desc: "Operator.HandleDeploy builds a new TimerStore / TimerRegistry on the database it has just opened, with the operator's own key-group range and the deployed source-runner ids; new key-group queues start with an empty, not-known-complete cache",
		Run: func(r *Run) {
			f := r.P.Func("workers/operator", "(*Operator).HandleDeploy")
			info := f.Pkg.TypesInfo
			nts := r.P.FuncObj("workers/operator", "NewTimerStore")
			ntr := r.P.FuncObj("workers/operator", "NewTimerRegistry")
			nks := r.P.FuncObj("workers/operator", "NewKeyedStateStore")
			open := r.P.FuncObj("dkv", "Open")
			dbF := r.P.Field("workers/operator", "Operator", "db")
			ksF := r.P.Field("workers/operator", "Operator", "keySpace")
			kgrF := r.P.Field("workers/operator", "Operator", "keyGroupRange")
			var openPos, storePos token.Pos
			inspect(f.Decl.Body, func(nd ast.Node) bool {
				switch x := nd.(type) {
				case *ast.AssignStmt:
					if len(x.Lhs) == 1 && len(x.Rhs) == 1 && prog.SelField(info, x.Lhs[0]) == dbF {
						if call, ok := ast.Unparen(x.Rhs[0]).(*ast.CallExpr); ok && r.P.CalleeFunc(info, call) == open {
							openPos = x.Pos()
						}
					}
				case *ast.CallExpr:
					fn := r.P.CalleeFunc(info, x)
					if fn == nts {
						storePos = x.Pos()
						r.Site(x.Pos(), "NewTimerStore arguments")
						if len(x.Args) != 4 || prog.SelField(info, x.Args[0]) != dbF || prog.SelField(info, x.Args[1]) != ksF || prog.SelField(info, x.Args[2]) != kgrF {
							r.Fail(f.Name()+":timer-store-args", x.Pos(), nil, "the timer store is not built on (o.db, o.keySpace, o.keyGroupRange): timers would be kept in another database or for another key range")
						}
					}
					if fn == nks {
						r.Site(x.Pos(), "NewKeyedStateStore arguments")
						if len(x.Args) != 2 || prog.SelField(info, x.Args[0]) != dbF || prog.SelField(info, x.Args[1]) != ksF {
							r.Fail(f.Name()+":state-store-args", x.Pos(), nil, "the keyed state store is not built on (o.db, o.keySpace)")
						}
					}
					if fn == ntr {
						r.Site(x.Pos(), "NewTimerRegistry arguments")
						ids := r.P.Field("proto/workerpb", "DeployOperatorRequest", "SourceRunnerIds")
						if len(x.Args) != 2 || prog.SelField(info, x.Args[1]) != ids {
							r.Fail(f.Name()+":timer-registry-args", x.Pos(), nil, "the timer registry is not initialised with the deployed source runner ids: the minimum watermark would ignore (or wait forever for) some upstream")
						}
					}
				}
				return true
			})
			if openPos == token.NoPos || storePos == token.NoPos || storePos < openPos {
				r.Fail(f.Name()+":order", f.Decl.Pos(), nil, "HandleDeploy must open the database (dkv.Open assigned to o.db) before building the timer store on it")
			}
			// dkv.Open is given the request's checkpoint handles
			ck := r.P.Field("proto/workerpb", "DeployOperatorRequest", "Checkpoints")
			handleT := r.P.TypeName("dkv/recovery", "CheckpointHandle")
			uses, builds := exprUsesField(info, f.Decl.Body, ck), false
			inspect(f.Decl.Body, func(nd ast.Node) bool {
				if cl, ok := nd.(*ast.CompositeLit); ok && info.TypeOf(cl) == handleT.Type() {
					builds = true
					got := map[string]string{}
					for _, el := range cl.Elts {
						if kv, ok := el.(*ast.KeyValueExpr); ok {
							if sel, ok := ast.Unparen(kv.Value).(*ast.SelectorExpr); ok {
								got[kv.Key.(*ast.Ident).Name] = sel.Sel.Name
							}
						}
					}
					r.Site(cl.Pos(), "checkpoint handle built from the deploy request")
					if got["CheckpointID"] != "CheckpointId" || got["URI"] != "DkvFileUri" {
						r.Fail(f.Name()+":handle-fields", cl.Pos(), nil, "the DKV checkpoint handle must be {CheckpointID: ckpt.CheckpointId, URI: ckpt.DkvFileUri}")
					}
				}
				return true
			})
			if !uses || !builds {
				r.Fail(f.Name()+":handles", f.Decl.Pos(), nil, "HandleDeploy does not open the database from the request's operator checkpoints")
			}
			// fresh queue state
			nk := r.P.Func("workers/operator", "NewKeyGroupPriorityQueue")
			all := r.P.Field("workers/operator", "KeyGroupPriorityQueue", "allDataInCache")
			r.Site(nk.Decl.Pos(), "new key-group queues are not marked complete")
			inspect(nk.Decl.Body, func(nd ast.Node) bool {
				if kv, ok := nd.(*ast.KeyValueExpr); ok {
					if id, ok := kv.Key.(*ast.Ident); ok && nk.Pkg.TypesInfo.Uses[id] == types.Object(all) {
						if tv, ok := nk.Pkg.TypesInfo.Types[kv.Value]; !ok || tv.Value == nil || tv.Value.String() != "false" {
							r.Fail(nk.Name()+":allDataInCache", kv.Pos(), nil, "a new key-group queue is created as 'all data in cache': timers restored from a checkpoint are never loaded")
						}
					}
				}
				return true
			})
		}})
}

// usesTimeCompare reports whether e contains a time.Time comparison method call.
func usesTimeCompare(info *types.Info, e ast.Node) bool {
	found := false
	inspect(e, func(nd ast.Node) bool {
		if call, ok := nd.(*ast.CallExpr); ok {
			if sel, ok := ast.Unparen(call.Fun).(*ast.SelectorExpr); ok {
				if fn, ok := info.Uses[sel.Sel].(*types.Func); ok && fn.Pkg() != nil && fn.Pkg().Path() == "time" {
					switch fn.Name() {
					case "After", "Before", "Equal", "Compare":
						found = true
					}
				}
			}
		}
		return !found
	})
	return found
}

func lookupIdentObj(info *types.Info, n ast.Node, name string) types.Object {
	var out types.Object
	inspect(n, func(nd ast.Node) bool {
		if id, ok := nd.(*ast.Ident); ok && id.Name == name && out == nil {
			out = info.Uses[id]
		}
		return true
	})
	return out
}

// isSelectorOf matches pkg.Name (e.g. binary.BigEndian).
func isSelectorOf(info *types.Info, e ast.Expr, pkgPath, name string) bool {
	sel, ok := ast.Unparen(e).(*ast.SelectorExpr)
	if !ok || sel.Sel.Name != name {
		return false
	}
	obj := info.Uses[sel.Sel]
	return obj != nil && obj.Pkg() != nil && obj.Pkg().Path() == pkgPath
}

// sliceBounds renders constant slice bounds "lo:hi" of x[lo:hi] ("" when not constant).
func sliceBounds(info *types.Info, e ast.Expr) string {
	sl, ok := ast.Unparen(e).(*ast.SliceExpr)
	if !ok {
		return ""
	}
	c := func(x ast.Expr) string {
		if x == nil {
			return ""
		}
		if tv, ok := info.Types[x]; ok && tv.Value != nil {
			return tv.Value.String()
		}
		return "?"
	}
	return c(sl.Low) + ":" + c(sl.High)
}
