package rules

import (
	"go/ast"
	"go/token"
	"go/types"

	"verif/checker/internal/pathsim"
	"verif/checker/internal/prog"
)

// C09.j: the answer "this neighbour does not need the table" travels from the retained checkpoint
// list of the asked operator to the asking cleanup through a chain of small functions. At every
// link a plain `false` (with no error) can only be the downstream link's own answer: a link that
// answers "not needed" on its own account (no database yet, a default, an `&&` with some local
// condition) lets the asker delete a file that a retained checkpoint of the neighbour references.
func init() {
	register(&Obligation{ID: "C09.j", Props: []string{"C09"}, Template: "answer-provenance",
		Desc: "every link that relays a neighbour's NeedsTable answer (DB.NeedsTable, Operator.HandleNeedsTable, OperatorConnectHandler.NeedsTable, OperatorConnectClient.NeedsTable) answers false-without-error only with the answer it received from the next link",
		Run: func(r *Run) {
			includes := r.P.FuncObj("dkv/recovery", "(*CheckpointList).IncludesTable")
			dbNeeds := r.P.Func("dkv", "(*DB).NeedsTable")
			handle := r.P.Func("workers/operator", "(*Operator).HandleNeedsTable")
			connH := r.P.Func("rpc", "(*OperatorConnectHandler).NeedsTable")
			connC := r.P.Func("rpc", "(*OperatorConnectClient).NeedsTable")

			// answers checks every return of fi: result 0 must be `true`, or accepted by from, or a
			// disjunction with such an operand; a return whose error result is not nil is an error
			// answer (the asker keeps the file) and is not judged.
			answers := func(fi *prog.FuncInfo, what string, from func(info *types.Info, e ast.Expr) bool) {
				info := fi.Pkg.TypesInfo
				sig := fi.Obj.Type().(*types.Signature)
				nres := sig.Results().Len()
				// named results: what a bare return (or `return needed, err`) hands back is what was last
				// assigned on the path
				var boolRes types.Object
				if rl := fi.Decl.Type.Results; rl != nil && len(rl.List) > 0 && len(rl.List[0].Names) > 0 {
					boolRes = info.Defs[rl.List[0].Names[0]]
				}
				var ok func(e ast.Expr) bool
				ok = func(e ast.Expr) bool {
					e = ast.Unparen(e)
					if tv, has := info.Types[e]; has && tv.Value != nil {
						return tv.Value.String() == "true"
					}
					if from(info, e) {
						return true
					}
					if b, isBin := e.(*ast.BinaryExpr); isBin && b.Op == token.LOR {
						return ok(b.X) || ok(b.Y)
					}
					if d := ast.Unparen(deref(info, e)); d != e {
						return ok(d)
					}
					return false
				}
				const (
					resUnset = 0 // the named result still holds false
					resOK    = 1 // it holds the next link's answer
					resOwn   = 2 // it holds something else
				)
				n := 0
				spec := &pathsim.Spec{}
				// atom 0: "the error this function is about to return is non-nil" (any error variable)
				spec.Atom = func(c *pathsim.Ctx, e ast.Expr) (int, bool, bool) {
					if x, notNil, isCmp := pathsimIsNil(c.Info, e); isCmp {
						if tv, has := c.Info.Types[x]; has && isErrorType(tv.Type) {
							return 0, !notNil, true
						}
					}
					return 0, false, false
				}
				spec.Step = func(c *pathsim.Ctx, s pathsim.State, ev *pathsim.Event) []pathsim.State {
					switch ev.Kind {
					case pathsim.EvAssign:
						for i, l := range ev.Lhs {
							if tv, has := c.Info.Types[l]; has && isErrorType(tv.Type) {
								s.V[0] = pathsim.Unknown
							} else if id, isID := ast.Unparen(l).(*ast.Ident); isID {
								if o := c.Info.Defs[id]; o != nil && isErrorType(o.Type()) {
									s.V[0] = pathsim.Unknown
								}
							}
							if boolRes != nil && prog.IdentObjPlain(c.Info, l) == boolRes {
								s.A = resOwn
								if len(ev.Rhs) == len(ev.Lhs) && ok(ev.Rhs[i]) {
									s.A = resOK
								}
							}
						}
						return []pathsim.State{s}
					case pathsim.EvReturn:
						if c.Depth > 0 {
							return nil
						}
						n++
						var res0 ast.Expr
						switch {
						case len(ev.Results) == nres:
							res0 = ev.Results[0]
							if nres == 2 {
								tv, has := c.Info.Types[ev.Results[1]]
								if !(has && tv.IsNil()) && s.V[0] != pathsim.False {
									return nil // an error answer (or possibly one): the asker keeps the file
								}
							}
						case len(ev.Results) == 0 && boolRes != nil:
							if nres == 2 && s.V[0] == pathsim.True {
								return nil
							}
						default:
							c.Violate(ev.Pos, "[answer-shape] %s: a return whose results cannot be told", what)
							return nil
						}
						good := false
						switch {
						case res0 == nil:
							good = s.A == resOK
						case boolRes != nil && prog.IdentObjPlain(c.Info, res0) == boolRes:
							good = s.A == resOK
						default:
							good = ok(res0)
						}
						if !good {
							c.Violate(ev.Pos, "[false-without-asking] %s answers on its own account instead of relaying the next link's answer: a plain 'not needed' reaches the asking cleanup, which deletes a table file although a retained checkpoint of this operator may reference it", what)
						}
					}
					return nil
				}
				r.Sim(fi.Decl, fi.Name()+":relay", spec)
				r.Site(fi.Decl.Pos(), what+" relays the next link's answer")
				if n == 0 {
					r.Fail(fi.Name()+":answer-shape", fi.Decl.Pos(), nil, "%s has no return", what)
				}
			}
			callOf := func(fn *types.Func) func(info *types.Info, e ast.Expr) bool {
				return func(info *types.Info, e ast.Expr) bool {
					call, _ := valueOrigin(info, e, 0)
					return call != nil && r.P.CalleeFunc(info, call) == fn
				}
			}
			answers(dbNeeds, "DB.NeedsTable", callOf(includes))
			answers(handle, "Operator.HandleNeedsTable", callOf(dbNeeds.Obj))

			// the connect handler: the response's TableNeeded is HandleNeedsTable's answer
			hi := connH.Pkg.TypesInfo
			nLit := 0
			inspect(connH.Decl.Body, func(nd ast.Node) bool {
				cl, isLit := nd.(*ast.CompositeLit)
				if !isLit {
					return true
				}
				if n, isNamed := derefType(hi.TypeOf(cl)).(*types.Named); !isNamed || n.Obj().Name() != "NeedsTableResponse" {
					return true
				}
				nLit++
				r.Site(cl.Pos(), "NeedsTableResponse literal")
				var val ast.Expr
				for _, el := range cl.Elts {
					if kv, isKV := el.(*ast.KeyValueExpr); isKV {
						if id, isID := kv.Key.(*ast.Ident); isID && id.Name == "TableNeeded" {
							val = kv.Value
						}
					}
				}
				if val == nil {
					// the field may be assigned after the literal: msg.TableNeeded = <answer>
					inspect(connH.Decl.Body, func(m ast.Node) bool {
						as, isAs := m.(*ast.AssignStmt)
						if !isAs || len(as.Lhs) != 1 || len(as.Rhs) != 1 {
							return true
						}
						sel, isSel := ast.Unparen(as.Lhs[0]).(*ast.SelectorExpr)
						if !isSel || sel.Sel.Name != "TableNeeded" {
							return true
						}
						if n, isNamed := derefType(hi.TypeOf(sel.X)).(*types.Named); isNamed && n.Obj().Name() == "NeedsTableResponse" {
							if val == nil || !callOf(handle.Obj)(hi, val) {
								val = as.Rhs[0]
							}
						}
						return true
					})
				}
				if val == nil || !callOf(handle.Obj)(hi, val) {
					r.Fail(connH.Name()+":false-without-asking", cl.Pos(), nil, "the NeedsTable response does not carry Operator.HandleNeedsTable's answer in TableNeeded (an unset field reads as 'not needed')")
				}
				return true
			})
			if nLit == 0 {
				r.Fail(connH.Name()+":answer-shape", connH.Decl.Pos(), nil, "OperatorConnectHandler.NeedsTable builds no NeedsTableResponse")
			}

			// the connect client: TableNeeded of the response it received
			answers(connC, "OperatorConnectClient.NeedsTable", func(info *types.Info, e ast.Expr) bool {
				var root ast.Expr
				switch x := ast.Unparen(e).(type) {
				case *ast.SelectorExpr:
					if x.Sel.Name != "TableNeeded" {
						return false
					}
					root = x.X
				case *ast.CallExpr:
					sel, isSel := ast.Unparen(x.Fun).(*ast.SelectorExpr)
					if !isSel || sel.Sel.Name != "GetTableNeeded" || len(x.Args) != 0 {
						return false
					}
					root = sel.X
				default:
					return false
				}
				// result.Msg / result.Msg.GetX(): strip to the response variable
				for {
					switch y := ast.Unparen(root).(type) {
					case *ast.SelectorExpr:
						if _, isField := info.Selections[y]; isField {
							root = y.X
							continue
						}
					}
					break
				}
				call, idx := valueOrigin(info, root, 0)
				if call == nil || idx != 0 {
					return false
				}
				fn := r.P.CalleeFunc(info, call)
				return fn != nil && fn.Name() == "NeedsTable" && fn.Pkg() != nil && fn.Pkg().Name() == "workerpbconnect"
			})
		}})
}

func derefType(t types.Type) types.Type {
	if t == nil {
		return nil
	}
	if p, ok := t.Underlying().(*types.Pointer); ok {
		return p.Elem()
	}
	return t
}
