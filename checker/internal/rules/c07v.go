package rules

import (
	"go/ast"
	"go/types"
)

// C07.v: the entries an SST reader hands out carry what the record said. Version resolution
// ("highest sequence number wins", tombstones mask older puts) runs on these entries in the level
// list's lookups, in every scan merge and in compaction; an entry built with a missing or foreign
// sequence number loses or wins merges it should not.
func init() {
	register(&Obligation{ID: "C07.v", Props: []string{"C07", "C03", "C17", "C18"}, Template: "field-correspondence",
		Desc: "every sst.Entry built by Table.Get / Table.ScanPrefix takes its key from the record's key read (fields.ReadVarBytes), its sequence number from the record's fields.ReadUint64, its value from the record's value read, and is marked deleted exactly when it carries no value",
		Run: func(r *Run) {
			entT := r.P.TypeName("dkv/sst", "Entry")
			st, _ := entT.Type().Underlying().(*types.Struct)
			if st == nil {
				r.Error("unresolved anchor: dkv/sst.Entry is not a struct")
				return
			}
			readBytes := r.P.FuncObj("dkv/fields", "ReadVarBytes")
			readU64 := r.P.FuncObj("dkv/fields", "ReadUint64")
			readTomb := r.P.FuncObj("dkv/fields", "ReadTombstone")
			n := 0
			for _, fname := range []string{"(*Table).Get", "(*Table).ScanPrefix"} {
				f := r.P.Func("dkv/sst", fname)
				info := f.Pkg.TypesInfo
				inspect(f.Decl.Body, func(nd ast.Node) bool {
					cl, ok := nd.(*ast.CompositeLit)
					if !ok || derefType(info.TypeOf(cl)) != entT.Type() {
						return true
					}
					n++
					r.Site(cl.Pos(), "sst.Entry built in "+f.Name())
					vals := map[string]ast.Expr{}
					for i, el := range cl.Elts {
						if kv, isKV := el.(*ast.KeyValueExpr); isKV {
							if id, isID := kv.Key.(*ast.Ident); isID {
								vals[id.Name] = kv.Value
							}
						} else if i < st.NumFields() {
							vals[st.Field(i).Name()] = el
						}
					}
					from := func(e ast.Expr, fn *types.Func) bool {
						if e == nil {
							return false
						}
						call, idx := valueOrigin(info, e, 0)
						return call != nil && idx == 0 && r.P.CalleeFunc(info, call) == fn
					}
					isNil := func(e ast.Expr) bool {
						if e == nil {
							return true
						}
						tv, has := info.Types[e]
						return has && tv.IsNil()
					}
					id := f.Name() + ":entry"
					if !from(vals["seqNum"], readU64) {
						r.Fail(id+":seqNum", cl.Pos(), nil, "an entry read from an SST does not carry the record's sequence number (fields.ReadUint64): with 0 or a foreign number it loses to every older version in lookups, scan merges and compactions (deleted keys reappear, overwritten values come back)")
					}
					if !from(vals["key"], readBytes) {
						r.Fail(id+":key", cl.Pos(), nil, "an entry read from an SST does not carry the record's key")
					}
					del := false
					if e := vals["isDelete"]; e != nil {
						if tv, has := info.Types[e]; has && tv.Value != nil {
							del = tv.Value.String() == "true"
						} else if from(e, readTomb) {
							// the record's own tombstone flag: the value is attached afterwards on the live path
							// (entry.value = <value read>); which path is which is decided by C07.l / C07.m
							attached := false
							inspect(f.Decl.Body, func(m ast.Node) bool {
								if as, isAs := m.(*ast.AssignStmt); isAs && len(as.Lhs) == 1 && len(as.Rhs) == 1 {
									if sel, isSel := ast.Unparen(as.Lhs[0]).(*ast.SelectorExpr); isSel && sel.Sel.Name == "value" && derefType(info.TypeOf(sel.X)) == entT.Type() && from(as.Rhs[0], readBytes) {
										attached = true
									}
								}
								return true
							})
							if !attached && !from(vals["value"], readBytes) {
								r.Fail(id+":value", cl.Pos(), nil, "an entry marked with the record's tombstone flag never receives the record's value on the live path")
							}
							return true
						} else {
							r.Fail(id+":isDelete", cl.Pos(), nil, "the deleted mark of an SST entry is neither a constant of the branch that built it nor the record's tombstone flag")
							return true
						}
					}
					switch {
					case del && !isNil(vals["value"]):
						r.Fail(id+":tombstone-value", cl.Pos(), nil, "a tombstone read from an SST carries a value")
					case !del && !from(vals["value"], readBytes):
						r.Fail(id+":value", cl.Pos(), nil, "a live entry read from an SST does not carry the record's value")
					}
					return true
				})
			}
			if n < 2 {
				r.Error("floor: %d sst.Entry literals in Table.Get / Table.ScanPrefix (4 confirmed by hand, at least one per function)", n)
			}
		}})
}
