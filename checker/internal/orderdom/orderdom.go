// Package orderdom is engine E4: it decides pure comparison predicates exhaustively.
//
// A predicate built only from comparisons of opaque operands (byte strings, times,
// sequence numbers, key groups) and boolean structure depends only on the relative order
// of its operands. The engine abstracts every maximal non-comparison subexpression to a
// symbol, enumerates every weak ordering of the symbols (every assignment of ranks), and
// evaluates the source with its own small interpreter (no code of the repository is
// executed). The result is compared with a specification predicate for every ordering:
// exact for every input, and immune to equivalent rewrites of the source.
package orderdom

import (
	"fmt"
	"go/ast"
	"go/constant"
	"go/token"
	"go/types"
	"sort"
	"strconv"
	"strings"
)

type Kind int

const (
	KInt Kind = iota
	KBool
	KSym   // an operand returned by identity (rank known)
	KPanic // evaluation reached panic(...)
	KTuple
	KNil
)

type Value struct {
	K     Kind
	I     int
	B     bool
	Sym   string
	Tuple []Value
}

func (v Value) String() string {
	switch v.K {
	case KInt:
		return strconv.Itoa(v.I)
	case KBool:
		return strconv.FormatBool(v.B)
	case KSym:
		return "sym(" + v.Sym + ")"
	case KPanic:
		return "panic"
	case KNil:
		return "nil"
	case KTuple:
		var s []string
		for _, t := range v.Tuple {
			s = append(s, t.String())
		}
		return "(" + strings.Join(s, ", ") + ")"
	}
	return "?"
}

func Int(i int) Value        { return Value{K: KInt, I: i} }
func Bool(b bool) Value      { return Value{K: KBool, B: b} }
func Sym(s string) Value     { return Value{K: KSym, Sym: s} }
func Panic() Value           { return Value{K: KPanic} }
func Tuple(v ...Value) Value { return Value{K: KTuple, Tuple: v} }

func Equal(a, b Value) bool {
	if a.K != b.K {
		return false
	}
	switch a.K {
	case KInt:
		return a.I == b.I
	case KBool:
		return a.B == b.B
	case KSym:
		return a.Sym == b.Sym
	case KTuple:
		if len(a.Tuple) != len(b.Tuple) {
			return false
		}
		for i := range a.Tuple {
			if !Equal(a.Tuple[i], b.Tuple[i]) {
				return false
			}
		}
	}
	return true
}

// Env maps symbol names (as chosen by the rule through Names, or the canonical source text
// for unmapped symbols) to ranks / truth values.
type Env struct {
	Rank map[string]int
	Bool map[string]bool
}

type Undecided struct{ Msg string }

// Machine evaluates expressions / function bodies symbolically-by-enumeration.
type Machine struct {
	Info  *types.Info
	Names map[string]string // canonical source text -> spec name
	// discovered symbols (spec names), in discovery order
	OrdSyms  []string
	BoolSyms []string
	seenOrd  map[string]bool
	seenBool map[string]bool
	consts   map[string]int // const symbol name -> value ("#0" -> 0)

	// Effect designates calls in statement position whose execution is the function's
	// observable effect: reaching one ends the evaluation with Sym("effect").
	Effect func(call *ast.CallExpr) bool
	// AssignEffect designates variables whose (re)assignment is the observable effect: reaching
	// such an assignment ends the evaluation with Sym("effect"). A continue / break statement and
	// the end of a statement list run with CheckBody end it with Sym("end").
	AssignEffect func(obj types.Object) bool
	// AssignEffectName is AssignEffect with a name per assignment (cur = cur.left -> "left"): a
	// non-empty result ends the evaluation with Sym(name).
	AssignEffectName func(obj types.Object, rhs ast.Expr) string
	// Inline, when set, gives the signature and body a call runs in place (an extracted helper of
	// the same package): the body is executed with the parameters bound to the evaluated
	// arguments and its return value(s) become the call's value.
	Inline func(call *ast.CallExpr) (*ast.FuncType, *ast.BlockStmt)
	// ReturnIsEnd makes a return statement of the evaluated statement list (not of an inlined
	// helper) end the evaluation with Sym("end"), like a break out of the loop being examined.
	ReturnIsEnd bool
	// IgnoreStores lets assignments through selectors / index expressions pass as no-ops (the
	// evaluated question concerns locals only).
	IgnoreStores bool
	depth        int // > 0 while executing an inlined helper
	// RangeEvery, when set, names the boolean operand "every element of the ranged collection is
	// true" for a `for _, v := range <collection of bool>` loop (empty name: not such a loop).
	// The loop is then evaluated as a universal test: elements that are true run the body without
	// leaving it, and when the operand is false the body runs once with v = false.
	RangeEvery func(rs *ast.RangeStmt) string
	loopDepth  int

	env    *Env
	locals map[types.Object]Value
	disc   bool // discovery pass: unknown symbols are recorded with rank 0
}

func New(info *types.Info, names map[string]string) *Machine {
	return &Machine{Info: info, Names: names, seenOrd: map[string]bool{}, seenBool: map[string]bool{}, consts: map[string]int{}}
}

func (m *Machine) symName(e ast.Expr) string {
	s := types.ExprString(e)
	if n, ok := m.Names[s]; ok {
		return n
	}
	return s
}

func (m *Machine) ordSym(name string) Value {
	if !m.seenOrd[name] {
		m.seenOrd[name] = true
		m.OrdSyms = append(m.OrdSyms, name)
	}
	return Sym(name)
}

func (m *Machine) boolSym(name string) Value {
	if !m.seenBool[name] {
		m.seenBool[name] = true
		m.BoolSyms = append(m.BoolSyms, name)
	}
	if m.env != nil {
		return Bool(m.env.Bool[name])
	}
	return Bool(false)
}

func (m *Machine) rank(v Value) int {
	switch v.K {
	case KSym:
		if m.env == nil {
			return 0
		}
		return m.env.Rank[v.Sym]
	}
	panic(Undecided{"rank of non-symbol " + v.String()})
}

func undecided(format string, a ...any) { panic(Undecided{fmt.Sprintf(format, a...)}) }

func sign(i int) int {
	switch {
	case i < 0:
		return -1
	case i > 0:
		return 1
	}
	return 0
}

// cmpVals three-way compares two ordered values (ints with ints, symbols with symbols,
// symbol with int constant through a constant symbol).
func (m *Machine) cmpVals(a, b Value) int {
	if a.K == KInt && b.K == KInt {
		return sign(a.I - b.I)
	}
	if a.K == KInt {
		a = m.constSym(a.I)
	}
	if b.K == KInt {
		b = m.constSym(b.I)
	}
	if a.K == KSym && b.K == KSym {
		return sign(m.rank(a) - m.rank(b))
	}
	undecided("cannot compare %s with %s", a, b)
	return 0
}

func (m *Machine) constSym(c int) Value {
	name := "#" + strconv.Itoa(c)
	m.consts[name] = c
	return m.ordSym(name)
}

func (m *Machine) isOrderedOrBytes(t types.Type) bool {
	if t == nil {
		return false
	}
	switch u := t.Underlying().(type) {
	case *types.Basic:
		return u.Info()&(types.IsOrdered) != 0
	case *types.Slice:
		if b, ok := u.Elem().Underlying().(*types.Basic); ok && b.Kind() == types.Byte {
			return true
		}
	case *types.Struct:
		// time.Time
		if n, ok := t.(*types.Named); ok && n.Obj().Pkg() != nil && n.Obj().Pkg().Path() == "time" && n.Obj().Name() == "Time" {
			return true
		}
	}
	return false
}

func (m *Machine) opaque(e ast.Expr) Value {
	var t types.Type
	if tv, ok := m.Info.Types[e]; ok {
		t = tv.Type
	}
	if id, ok := e.(*ast.Ident); ok && t == nil {
		if o := m.Info.Defs[id]; o != nil {
			t = o.Type()
		} else if o := m.Info.Uses[id]; o != nil {
			t = o.Type()
		}
	}
	if t != nil {
		if b, isB := t.Underlying().(*types.Basic); isB && b.Info()&types.IsBoolean != 0 {
			return m.boolSym(m.symName(e))
		}
	}
	return m.ordSym(m.symName(e))
}

func (m *Machine) calleeName(call *ast.CallExpr) (pkg, recv, name string) {
	var id *ast.Ident
	switch f := ast.Unparen(call.Fun).(type) {
	case *ast.Ident:
		id = f
	case *ast.SelectorExpr:
		id = f.Sel
	case *ast.IndexExpr:
		switch ff := ast.Unparen(f.X).(type) {
		case *ast.Ident:
			id = ff
		case *ast.SelectorExpr:
			id = ff.Sel
		}
	}
	if id == nil {
		return
	}
	obj := m.Info.Uses[id]
	switch o := obj.(type) {
	case *types.Builtin:
		return "", "", o.Name()
	case *types.Func:
		if o.Pkg() != nil {
			pkg = o.Pkg().Path()
		}
		if sig, ok := o.Type().(*types.Signature); ok && sig.Recv() != nil {
			t := sig.Recv().Type()
			if p, ok := t.(*types.Pointer); ok {
				t = p.Elem()
			}
			if n, ok := t.(*types.Named); ok {
				recv = n.Obj().Name()
			}
		}
		return pkg, recv, o.Name()
	}
	return
}

// Eval evaluates an expression under the current environment.
func (m *Machine) Eval(e ast.Expr) Value {
	if tv, ok := m.Info.Types[e]; ok && tv.Value != nil {
		switch tv.Value.Kind() {
		case constant.Int:
			if i, ok := constant.Int64Val(tv.Value); ok {
				return Int(int(i))
			}
		case constant.Bool:
			return Bool(constant.BoolVal(tv.Value))
		}
	}
	if tv, ok := m.Info.Types[e]; ok && tv.IsNil() {
		return Value{K: KNil}
	}
	switch x := e.(type) {
	case *ast.ParenExpr:
		return m.Eval(x.X)
	case *ast.Ident:
		if obj := m.Info.Uses[x]; obj != nil {
			if v, ok := m.locals[obj]; ok {
				return v
			}
		}
		return m.opaque(e)
	case *ast.UnaryExpr:
		switch x.Op {
		case token.NOT:
			v := m.Eval(x.X)
			if v.K != KBool {
				undecided("! of non-bool")
			}
			return Bool(!v.B)
		case token.SUB:
			v := m.Eval(x.X)
			if v.K == KInt {
				return Int(-v.I)
			}
			return m.opaque(e)
		}
		return m.opaque(e)
	case *ast.BinaryExpr:
		switch x.Op {
		case token.LAND:
			a := m.Eval(x.X)
			if a.K != KBool {
				undecided("&& of non-bool")
			}
			if m.disc {
				m.Eval(x.Y)
			}
			if !a.B {
				return Bool(false)
			}
			b := m.Eval(x.Y)
			return b
		case token.LOR:
			a := m.Eval(x.X)
			if a.K != KBool {
				undecided("|| of non-bool")
			}
			if m.disc {
				m.Eval(x.Y)
			}
			if a.B {
				return Bool(true)
			}
			return m.Eval(x.Y)
		case token.EQL, token.NEQ, token.LSS, token.LEQ, token.GTR, token.GEQ:
			a, b := m.Eval(x.X), m.Eval(x.Y)
			if a.K == KBool && b.K == KBool {
				switch x.Op {
				case token.EQL:
					return Bool(a.B == b.B)
				case token.NEQ:
					return Bool(a.B != b.B)
				}
			}
			if a.K == KNil || b.K == KNil {
				// pointer comparisons with nil: opaque boolean
				return m.boolSym(m.symName(e))
			}
			c := m.cmpVals(a, b)
			switch x.Op {
			case token.EQL:
				return Bool(c == 0)
			case token.NEQ:
				return Bool(c != 0)
			case token.LSS:
				return Bool(c < 0)
			case token.LEQ:
				return Bool(c <= 0)
			case token.GTR:
				return Bool(c > 0)
			case token.GEQ:
				return Bool(c >= 0)
			}
		case token.ADD, token.SUB, token.MUL:
			a, b := m.Eval(x.X), m.Eval(x.Y)
			if a.K == KInt && b.K == KInt {
				switch x.Op {
				case token.ADD:
					return Int(a.I + b.I)
				case token.SUB:
					return Int(a.I - b.I)
				case token.MUL:
					return Int(a.I * b.I)
				}
			}
			return m.opaque(e)
		}
		return m.opaque(e)
	case *ast.CallExpr:
		if tv, ok := m.Info.Types[x.Fun]; ok && tv.IsType() && len(x.Args) == 1 {
			return m.Eval(x.Args[0]) // conversion
		}
		if v, ok := m.callInline(x); ok {
			return v
		}
		pkg, recv, name := m.calleeName(x)
		switch {
		case pkg == "bytes" && name == "Compare" && len(x.Args) == 2:
			return Int(m.cmpVals(m.Eval(x.Args[0]), m.Eval(x.Args[1])))
		case pkg == "bytes" && name == "Equal" && len(x.Args) == 2:
			return Bool(m.cmpVals(m.Eval(x.Args[0]), m.Eval(x.Args[1])) == 0)
		case pkg == "cmp" && name == "Compare" && len(x.Args) == 2:
			return Int(m.cmpVals(m.Eval(x.Args[0]), m.Eval(x.Args[1])))
		case pkg == "time" && recv == "Time" && len(x.Args) == 1:
			sel := ast.Unparen(x.Fun).(*ast.SelectorExpr)
			a, b := m.Eval(sel.X), m.Eval(x.Args[0])
			switch name {
			case "Before":
				return Bool(m.cmpVals(a, b) < 0)
			case "After":
				return Bool(m.cmpVals(a, b) > 0)
			case "Equal":
				return Bool(m.cmpVals(a, b) == 0)
			case "Compare":
				return Int(m.cmpVals(a, b))
			}
		case pkg == "" && (name == "max" || name == "min") && len(x.Args) == 2:
			a, b := m.Eval(x.Args[0]), m.Eval(x.Args[1])
			c := m.cmpVals(a, b)
			if (name == "max") == (c >= 0) {
				return a
			}
			return b
		case pkg == "" && name == "panic":
			return Panic()
		}
		return m.opaque(e)
	case *ast.SelectorExpr:
		// a field of a local that holds a symbolic value is named after that value, so that
		// `t := earliest(); t.Timestamp` and `timer.Timestamp` inside the helper are one operand
		if id, ok := ast.Unparen(x.X).(*ast.Ident); ok {
			if obj := m.Info.Uses[id]; obj != nil {
				if v, ok := m.locals[obj]; ok && v.K == KSym {
					name := v.Sym + "." + x.Sel.Name
					if n, ok := m.Names[name]; ok {
						name = n
					}
					if tv, ok := m.Info.Types[e]; ok {
						if b, isB := tv.Type.Underlying().(*types.Basic); isB && b.Info()&types.IsBoolean != 0 {
							return m.boolSym(name)
						}
					}
					return m.ordSym(name)
				}
			}
		}
		return m.opaque(e)
	case *ast.IndexExpr, *ast.StarExpr, *ast.SliceExpr, *ast.TypeAssertExpr:
		return m.opaque(e)
	case *ast.BasicLit:
		return m.opaque(e)
	case *ast.CompositeLit:
		return m.opaque(e)
	}
	undecided("unsupported expression %T", e)
	return Value{}
}

type returned struct{ v Value }

// exec runs statements; a return is signalled by panic(returned{...}).
type frameReturn struct{ v Value }

type loopBranch struct{ tok token.Token }

// callInline executes the body Inline designates for the call (if any) with its parameters bound.
func (m *Machine) callInline(call *ast.CallExpr) (v Value, ok bool) {
	if m.Inline == nil || m.depth >= 3 {
		return Value{}, false
	}
	ft, body := m.Inline(call)
	if body == nil {
		return Value{}, false
	}
	if ft.Params != nil {
		k := 0
		for _, fld := range ft.Params.List {
			for _, n := range fld.Names {
				if k < len(call.Args) {
					if obj := m.Info.Defs[n]; obj != nil {
						m.locals[obj] = m.Eval(call.Args[k])
					}
				}
				k++
			}
			if len(fld.Names) == 0 {
				k++
			}
		}
	}
	m.depth++
	defer func() {
		m.depth--
		if e := recover(); e != nil {
			if fr, isFR := e.(frameReturn); isFR {
				v, ok = fr.v, true
				return
			}
			panic(e)
		}
	}()
	m.exec(body.List)
	return Value{K: KNil}, true
}

func (m *Machine) exec(list []ast.Stmt) {
	for _, s := range list {
		m.execStmt(s)
	}
}

func (m *Machine) execStmt(s ast.Stmt) {
	switch x := s.(type) {
	case *ast.BlockStmt:
		m.exec(x.List)
	case *ast.ReturnStmt:
		var rv Value
		switch len(x.Results) {
		case 0:
			rv = Value{K: KNil}
		case 1:
			rv = m.Eval(x.Results[0])
		default:
			var vs []Value
			for _, r := range x.Results {
				vs = append(vs, m.Eval(r))
			}
			rv = Tuple(vs...)
		}
		if m.depth > 0 {
			panic(frameReturn{rv})
		}
		if m.ReturnIsEnd {
			panic(returned{Sym("end")})
		}
		panic(returned{rv})
	case *ast.IfStmt:
		if x.Init != nil {
			m.execStmt(x.Init)
		}
		c := m.Eval(x.Cond)
		if c.K != KBool {
			undecided("non-boolean condition")
		}
		if m.disc {
			// discovery: visit both branches (ignoring returns) to find all symbols
			m.discover(x.Body)
			if x.Else != nil {
				m.discover(x.Else)
			}
			return
		}
		if c.B {
			m.execStmt(x.Body)
		} else if x.Else != nil {
			m.execStmt(x.Else)
		}
	case *ast.AssignStmt:
		if len(x.Lhs) == len(x.Rhs) {
			// `dst[i] = append(dst[i], v)`: an effect call on the right-hand side of a store is the effect
			if m.Effect != nil && !m.disc {
				for _, r := range x.Rhs {
					if call, ok := ast.Unparen(r).(*ast.CallExpr); ok && m.Effect(call) {
						panic(returned{Sym("effect")})
					}
				}
			}
			vals := make([]Value, len(x.Rhs))
			for i, r := range x.Rhs {
				vals[i] = m.Eval(r)
			}
			for i, l := range x.Lhs {
				id, ok := l.(*ast.Ident)
				if !ok {
					if m.IgnoreStores {
						continue // a store through a selector / index: no tracked local changes
					}
					undecided("assignment to non-local")
				}
				obj := m.Info.Defs[id]
				if obj == nil {
					obj = m.Info.Uses[id]
				}
				if obj == nil {
					continue
				}
				if x.Tok == token.ASSIGN && m.AssignEffect != nil && m.AssignEffect(obj) && !m.disc {
					panic(returned{Sym("effect")})
				}
				if x.Tok == token.ASSIGN && m.AssignEffectName != nil && !m.disc {
					if name := m.AssignEffectName(obj, x.Rhs[i]); name != "" {
						panic(returned{Sym(name)})
					}
				}
				if x.Tok == token.ASSIGN || x.Tok == token.DEFINE {
					m.locals[obj] = vals[i]
				} else {
					undecided("compound assignment")
				}
			}
			return
		}
		// `a, b := f(...)`: each result is an opaque operand named after its variable
		if len(x.Rhs) == 1 && (x.Tok == token.DEFINE || x.Tok == token.ASSIGN) {
			if call, isCall := ast.Unparen(x.Rhs[0]).(*ast.CallExpr); isCall {
				if tv, ok := m.callInline(call); ok && tv.K == KTuple && len(tv.Tuple) == len(x.Lhs) {
					for i, l := range x.Lhs {
						id, ok := l.(*ast.Ident)
						if !ok {
							undecided("assignment to non-local")
						}
						if id.Name == "_" {
							continue
						}
						obj := m.Info.Defs[id]
						if obj == nil {
							obj = m.Info.Uses[id]
						}
						if obj != nil {
							m.locals[obj] = tv.Tuple[i]
						}
					}
					return
				}
				for _, l := range x.Lhs {
					id, ok := l.(*ast.Ident)
					if !ok {
						undecided("assignment to non-local")
					}
					if id.Name == "_" {
						continue
					}
					obj := m.Info.Defs[id]
					if obj == nil {
						obj = m.Info.Uses[id]
					}
					if obj == nil {
						continue
					}
					m.locals[obj] = m.opaque(id)
				}
				return
			}
		}
		undecided("tuple assignment")
	case *ast.ExprStmt:
		if call, ok := ast.Unparen(x.X).(*ast.CallExpr); ok && m.Effect != nil && m.Effect(call) {
			for _, a := range call.Args {
				m.Eval(a)
			}
			if !m.disc {
				panic(returned{Sym("effect")})
			}
			return
		}
		v := m.Eval(x.X)
		if v.K == KPanic && !m.disc {
			panic(returned{v})
		}
	case *ast.SwitchStmt:
		if x.Init != nil {
			m.execStmt(x.Init)
		}
		var tag *Value
		if x.Tag != nil {
			t := m.Eval(x.Tag)
			tag = &t
		}
		var def *ast.CaseClause
		for _, cl := range x.Body.List {
			cc := cl.(*ast.CaseClause)
			if cc.List == nil {
				def = cc
				continue
			}
			match := false
			for _, e := range cc.List {
				v := m.Eval(e)
				if tag == nil {
					if v.K != KBool {
						undecided("non-bool case")
					}
					match = match || v.B
				} else {
					match = match || m.cmpVals(*tag, v) == 0
				}
			}
			if m.disc {
				m.discover(&ast.BlockStmt{List: cc.Body})
				continue
			}
			if match {
				m.exec(cc.Body)
				return
			}
		}
		if def != nil {
			if m.disc {
				m.discover(&ast.BlockStmt{List: def.Body})
				return
			}
			m.exec(def.Body)
		}
	case *ast.EmptyStmt:
	case *ast.RangeStmt:
		name := ""
		if m.RangeEvery != nil {
			name = m.RangeEvery(x)
		}
		vid, _ := x.Value.(*ast.Ident)
		if name == "" || vid == nil {
			undecided("unsupported statement %T", s)
		}
		if kid, ok := x.Key.(*ast.Ident); x.Key != nil && (!ok || kid.Name != "_") {
			undecided("range loop uses its key")
		}
		vobj := m.Info.Defs[vid]
		all := m.boolSym(name)
		iter := func(v bool) (left bool) {
			m.locals[vobj] = Bool(v)
			m.loopDepth++
			defer func() {
				m.loopDepth--
				if e := recover(); e != nil {
					if lb, ok := e.(loopBranch); ok {
						left = lb.tok == token.BREAK
						return
					}
					panic(e)
				}
			}()
			m.execStmt(x.Body)
			return false
		}
		if m.disc {
			func() {
				defer func() {
					if e := recover(); e != nil {
						switch e.(type) {
						case returned, frameReturn:
							return
						}
						panic(e)
					}
				}()
				iter(true)
			}()
			func() {
				defer func() {
					if e := recover(); e != nil {
						switch e.(type) {
						case returned, frameReturn:
							return
						}
						panic(e)
					}
				}()
				iter(false)
			}()
			return
		}
		// an element that is true must let the loop go on (otherwise the outcome depends on the
		// order and number of elements)
		func() {
			defer func() {
				if e := recover(); e != nil {
					switch e.(type) {
					case returned, frameReturn:
						undecided("the loop body leaves the function on an element that is true")
					}
					panic(e)
				}
			}()
			if iter(true) {
				undecided("the loop body breaks on an element that is true")
			}
		}()
		if !all.B {
			iter(false)
		}
	case *ast.BranchStmt:
		if (x.Tok == token.CONTINUE || x.Tok == token.BREAK) && x.Label == nil {
			if m.loopDepth > 0 {
				panic(loopBranch{x.Tok})
			}
			panic(returned{Sym("end")})
		}
		undecided("unsupported branch statement %s", x.Tok)
	case *ast.DeclStmt:
		gd, ok := x.Decl.(*ast.GenDecl)
		if !ok || gd.Tok != token.VAR {
			return
		}
		for _, sp := range gd.Specs {
			vs := sp.(*ast.ValueSpec)
			for i, n := range vs.Names {
				if i < len(vs.Values) {
					m.locals[m.Info.Defs[n]] = m.Eval(vs.Values[i])
				} else {
					undecided("var without value")
				}
			}
		}
	default:
		undecided("unsupported statement %T", s)
	}
}

func (m *Machine) discover(s ast.Stmt) {
	// each branch is discovered from the same state (a local assigned in one branch must not
	// change how the sibling branch names its operands)
	saved := make(map[types.Object]Value, len(m.locals))
	for k, v := range m.locals {
		saved[k] = v
	}
	defer func() { m.locals = saved }()
	defer func() {
		if e := recover(); e != nil {
			if _, ok := e.(returned); ok {
				return
			}
			if _, ok := e.(frameReturn); ok {
				return
			}
			panic(e)
		}
	}()
	m.execStmt(s)
}

// Case is one evaluated ordering.
type Case struct {
	Env  Env
	Got  Value
	Want Value
}

type Result struct {
	OrdSyms   []string
	BoolSyms  []string
	Orderings int
	Mismatch  *Case
	Undecided string
}

// Check evaluates run() under every weak ordering of the discovered symbols that passes
// side, and compares with spec.
func (m *Machine) Check(run func(), side func(Env) bool, spec func(Env) Value) (res Result) {
	defer func() {
		if e := recover(); e != nil {
			if u, ok := e.(Undecided); ok {
				res.Undecided = u.Msg
				return
			}
			panic(e)
		}
	}()
	evalOnce := func() (v Value) {
		defer func() {
			if e := recover(); e != nil {
				if r, ok := e.(returned); ok {
					v = r.v
					return
				}
				panic(e)
			}
		}()
		m.locals = map[types.Object]Value{}
		run()
		return Value{K: KNil}
	}
	// discovery pass
	m.disc = true
	m.env = nil
	evalOnce()
	m.disc = false
	// symbols named in Names that the code does not mention still take part (the spec may
	// depend on them): add them so that a dropped operand shows as a mismatch.
	var wanted []string
	for _, n := range m.Names {
		wanted = append(wanted, n)
	}
	sort.Strings(wanted)
	for _, n := range wanted {
		if strings.HasPrefix(n, "?") { // boolean symbol names are prefixed with ?
			if !m.seenBool[n] {
				m.seenBool[n] = true
				m.BoolSyms = append(m.BoolSyms, n)
			}
			continue
		}
		if !m.seenOrd[n] {
			m.seenOrd[n] = true
			m.OrdSyms = append(m.OrdSyms, n)
		}
	}
	res.OrdSyms = append([]string(nil), m.OrdSyms...)
	res.BoolSyms = append([]string(nil), m.BoolSyms...)
	if len(m.OrdSyms) > 6 || len(m.BoolSyms) > 4 {
		res.Undecided = fmt.Sprintf("too many symbols: %v %v", m.OrdSyms, m.BoolSyms)
		return
	}
	k := len(m.OrdSyms)
	ranks := make([]int, k)
	var rec func(i int) bool
	tryBools := func() bool {
		nb := len(m.BoolSyms)
		for mask := 0; mask < 1<<nb; mask++ {
			env := Env{Rank: map[string]int{}, Bool: map[string]bool{}}
			for i, s := range m.OrdSyms {
				env.Rank[s] = ranks[i]
			}
			for i, s := range m.BoolSyms {
				env.Bool[s] = mask&(1<<i) != 0
			}
			// constant symbols must be ordered like their values
			ok := true
			for a, av := range m.consts {
				for b, bv := range m.consts {
					if sign(av-bv) != sign(env.Rank[a]-env.Rank[b]) {
						ok = false
					}
				}
			}
			if !ok || (side != nil && !side(env)) {
				continue
			}
			m.env = &env
			got := evalOnce()
			want := spec(env)
			res.Orderings++
			if !Equal(got, want) {
				res.Mismatch = &Case{Env: env, Got: got, Want: want}
				return false
			}
		}
		return true
	}
	rec = func(i int) bool {
		if i == k {
			// canonical weak orderings only: the set of used ranks must be {0..max}
			used := map[int]bool{}
			mx := -1
			for _, r := range ranks {
				used[r] = true
				if r > mx {
					mx = r
				}
			}
			for r := 0; r <= mx; r++ {
				if !used[r] {
					return true
				}
			}
			return tryBools()
		}
		for r := 0; r < k; r++ {
			ranks[i] = r
			if !rec(i + 1) {
				return false
			}
		}
		return true
	}
	if k == 0 {
		tryBools()
	} else {
		rec(0)
	}
	// newly discovered symbols during enumeration (short-circuit hid them in discovery) are
	// handled by the discovery pass evaluating both sides; if any appeared later, redo.
	if len(m.OrdSyms) != k {
		res.Undecided = "symbols discovered during enumeration: " + strings.Join(m.OrdSyms[k:], ",")
	}
	return
}

// CheckFunc evaluates a function body.
func (m *Machine) CheckFunc(body *ast.BlockStmt, side func(Env) bool, spec func(Env) Value) Result {
	return m.Check(func() { m.exec(body.List) }, side, spec)
}

// CheckBody evaluates a statement list (one loop iteration): the result is Sym("effect") when an
// AssignEffect / Effect is reached, Sym("end") when the list ends or continues / breaks first.
func (m *Machine) CheckBody(list []ast.Stmt, side func(Env) bool, spec func(Env) Value) Result {
	return m.Check(func() { m.exec(list); panic(returned{Sym("end")}) }, side, spec)
}

// CheckExpr evaluates a single expression.
func (m *Machine) CheckExpr(e ast.Expr, side func(Env) bool, spec func(Env) Value) Result {
	return m.Check(func() { panic(returned{m.Eval(e)}) }, side, spec)
}

func (c *Case) String() string {
	var parts []string
	var ks []string
	for k := range c.Env.Rank {
		ks = append(ks, k)
	}
	sort.Slice(ks, func(i, j int) bool {
		if c.Env.Rank[ks[i]] != c.Env.Rank[ks[j]] {
			return c.Env.Rank[ks[i]] < c.Env.Rank[ks[j]]
		}
		return ks[i] < ks[j]
	})
	for i, k := range ks {
		if i > 0 {
			if c.Env.Rank[ks[i-1]] == c.Env.Rank[k] {
				parts = append(parts, "=")
			} else {
				parts = append(parts, "<")
			}
		}
		parts = append(parts, k)
	}
	s := strings.Join(parts, " ")
	var bs []string
	for k, v := range c.Env.Bool {
		bs = append(bs, fmt.Sprintf("%s=%v", k, v))
	}
	sort.Strings(bs)
	if len(bs) > 0 {
		s += " ; " + strings.Join(bs, " ")
	}
	return fmt.Sprintf("ordering [%s]: code gives %s, specification gives %s", s, c.Got, c.Want)
}
