#!/bin/bash
# Development aid: like seed_corpus.sh, but each seeded change must be reported by the registered
# quick command of the property it was seeded for (not by some other property's check).
cd /verif
ok=0; bad=0
V=$(mktemp -d /tmp/vroot.XXXX); ln -s /verif/bin $V/bin; cp known_findings.txt $V/; mkdir -p $V/evidence $V/replays
for d in seeded/*/patch.diff; do
  id=$(basename $(dirname $d)); prop=${id%%_*}
  git -C /repo apply /verif/$d 2>/dev/null || { echo "[$id] does not apply"; continue; }
  out=$(/verif/bin/verifcheck -property $prop -tier quick -verif $V 2>&1); rc=$?
  git -C /repo checkout -- .
  if [ $rc -eq 1 ] && echo "$out" | grep -q "^VIOLATION property=$prop "; then ok=$((ok+1)); else bad=$((bad+1)); echo "[$id] MISSED under $prop (rc=$rc)"; echo "$out" | grep -E "^(VIOLATION|ERROR)" | head -3; fi
done
echo "seed corpus (own property): $ok detected, $bad missed"
rm -rf $V
