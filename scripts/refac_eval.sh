#!/bin/bash
# Development aid: evaluate a behaviour-preserving refactoring written by a sub-agent in
# /tmp/refac/<ID>/REFAC: copy it to /verif/refactors/<ID>, apply it to /repo, run every
# registered quick check (all must stay silent), undo.
set -u
ID=$1; WT=/tmp/refac/$ID
[ -d $WT/REFAC ] || { echo "no REFAC in $WT"; exit 9; }
mkdir -p /verif/refactors/$ID
(cd $WT && git diff -- . ':!REFAC' > /verif/refactors/$ID/patch.diff)
cp $WT/REFAC/meta.json /verif/refactors/$ID/meta.agent.json 2>/dev/null
echo "== patch: $(grep -c '^[-+][^-+]' /verif/refactors/$ID/patch.diff) changed lines in $(grep -c '^diff' /verif/refactors/$ID/patch.diff) files"
cd /repo && git apply /verif/refactors/$ID/patch.diff || { echo "PATCH DOES NOT APPLY"; exit 8; }
for p in $(python3 -c "import json;print(' '.join(c['property_id'] for c in json.load(open('/verif/MANIFEST.json'))['checks']))"); do
  out=$(/verif/bin/verifcheck -property $p -tier quick 2>&1); rc=$?
  if [ $rc -ne 0 ]; then echo "[$p rc=$rc]"; echo "$out" | grep -E "^(ERROR|  [a-z].*:[0-9]+: )" | cut -c1-330 | head -12; fi
done
git -C /repo checkout -- .
echo "== done"
