#!/usr/bin/env python3
"""Development aid: write the prompt for a fresh sub-agent that produces behaviour-preserving
refactorings of the code a property is anchored in (second-pass flavour: structurally interesting
kinds).  usage: refac_prompt.py <PROP> <ID>  -> prints the prompt; worktree /tmp/refac/<ID>."""
import json, sys
prop, rid = sys.argv[1], sys.argv[2]
variant = sys.argv[3] if len(sys.argv) > 3 else 't'
P = {}
for l in open('/verif/properties.jsonl'):
    d = json.loads(l); P[d['id']] = d
p = P[prop]
wt = f'/tmp/refac/{rid}'
mech = p.get('anchors', {}).get('mechanism') or []
ml = "\n".join(f" - {m.get('name')}  [{m.get('where','')}]" for m in mech)
NOTES = {
 't': "NOTE: another maintainer already did a first pass over these functions (renames of locals, simple early returns, if->switch, single error wraps). Choose DIFFERENT spots and prefer the structurally more interesting kinds: 4, 5, 6, 8, 9, 10, and combinations such as 'introduce a local and use it in two places', 'extract a helper that takes parameters and returns a value', 'merge two guards into one condition' or 'split one condition into two guards'.",
 'u': "NOTE: two maintainers already went over these functions (renames, early returns, if<->switch, loop spellings, single-use locals, small extracted helpers, deferred unlocks). Choose DIFFERENT spots and go for the less common but still everyday clean-ups: extract a helper that returns TWO OR MORE values (value, ok / value, err); turn a closure / function literal into a named method passed as a method value (or the reverse: inline a tiny helper at its only call site); hoist a repeated expression into a local declared with `var` and assigned in branches; replace a boolean flag by an early exit (or introduce one); replace `x := a; if c { x = b }` by an if/else; convert a `for {}` with break conditions into a `for cond {}` loop (or the reverse); use named results; replace `append` in a loop by preallocation + index assignment; swap the operands of a symmetric comparison (`a == b` -> `b == a`, `a < b` -> `b > a`); apply De Morgan to a condition.",
}
# variant 'v': the functions are named here (the ones whose rules were added or changed last)
FOCUS = {
 'C03': [("Operator.processEventBatch", "workers/operator/operator.go"), ("KeyedStateStore.GetState / ApplyMutations", "workers/operator/keyed_state_store.go")],
 'C08': [("wal.Writer.Rotate, Cut, Truncate, Save", "dkv/wal/writer.go"), ("bufferSegment Read / Write", "dkv/wal/writer.go")],
 'C09': [("DB.NeedsTable", "dkv/db.go"), ("Operator.HandleNeedsTable", "workers/operator/operator.go"), ("OperatorConnectHandler.NeedsTable", "rpc/operator_connect_handler.go"), ("OperatorConnectClient.NeedsTable", "rpc/operator_connect_client.go"), ("neighborPartition.NeedsTable, OperatorPartition.ExclusivelyOwnsTable", "workers/operator/operator_partition.go")],
 'C10': [("KeyGroupPriorityQueue.Push, Pop, Peek, Delete, loadFromDB", "workers/operator/timer_store.go"), ("ds.SortedCache", "util/ds/sorted_cache.go")],
 'C11': [("NewTimerRegistry, TimerRegistry.AdvanceWatermark, SetTimer", "workers/operator/timer_registry.go"), ("Operator.handleSourceComplete, handleWatermark", "workers/operator/operator.go")],
 'C17': [("TableWriter.WriteRun", "dkv/sst/table_writer.go"), ("entryBuffer add / cut / all / flushChunk", "dkv/sst/table_writer.go")],
 'C18': [("Compactor.majorCompaction, minorCompaction", "dkv/sst/compaction.go")],
 'C20': [("EventBatcher.Add, Flush, IsFull", "batching/batching.go"), ("ReorderFetcher.flush, Add", "batching/reorder_fetcher.go"), ("ReorderBuffer", "batching/reorder_buffer.go")],
}
NOTES['v'] = NOTES['t'] + " Also welcome: turning a labelled break into a flag (or the reverse), named results with bare returns, inlining a two-line method at its only call site, extracting a helper that returns (value, error), passing a value through a pointer parameter, replacing a compound condition by nested ifs."
FOCUS_W = {
 'C05': [("keyGroupRanges, NewKeySpace, KeySpace.RangeIndex", "partitioning/key_space.go"), ("AssignRanges", "partitioning/key_space.go")],
 'C07': [("sst.Table.Get, Table.ScanPrefix (record reading and the entries they hand out)", "dkv/sst/table.go"), ("sst.LevelList.Get, ScanPrefix", "dkv/sst/level_list.go")],
 'C08': [("recovery.Checkpoint.NextWALID, newCheckpointFromDocument", "dkv/recovery/checkpoint.go"), ("DB.Start, DB.Checkpoint", "dkv/db.go"), ("wal.Writer.Rotate, NewWriter", "dkv/wal/writer.go")],
 'C09': [("CheckpointList.Add, RetainOnly, IncludesTable, Save", "dkv/recovery/checkpoint_list.go"), ("newCheckpointFromDocument, Checkpoint.IncludesTable", "dkv/recovery/checkpoint.go")],
 'C12': [("jobSnapshot.addOperatorSnapshot, addSourceRunnerSnapshot, isComplete", "storage/snapshots/snapshot.go"), ("Store.AddOperatorSnapshot, AddSourceSnapshot, finishSnapshot", "storage/snapshots/store.go")],
 'C14': [("CreateSavepointArtifact, RestoreCheckpointFromSavepointArtifact", "storage/snapshots/savepoint_artifact.go"), ("Store.LoadCheckpoint", "storage/snapshots/store.go")],
 'C19': [("PartitionedPriorityQueue.Push, Pop, Peek, Delete", "util/ds/partitioned_priority_queue.go"), ("sliceu.SearchUnique", "util/sliceu/sliceu.go"), ("ds.Heap", "util/ds/heap.go")],
 'C20': [("EventBatcher.Add, Flush", "batching/batching.go"), ("ReorderBuffer.Reserve, Add, Drain", "batching/reorder_buffer.go")],
}
NOTES['w'] = NOTES['v']
if variant == 'w':
    ml = "\n".join(f" - {n}  [{w}]" for n, w in FOCUS_W[prop])
FOCUS_X = {
 'C07': [("memtable.List.ScanPrefix, List.Get, tablesSnap", "dkv/memtable/list.go"), ("DB.Get, DB.ScanPrefix", "dkv/db.go")],
 'C17': [("TableWriter.Write, NewTableWriter", "dkv/sst/table_writer.go"), ("Table.Document, NewTableFromDocument, TableDocument", "dkv/sst/table.go"), ("CheckpointList.Save, LoadCheckpointList", "dkv/recovery/checkpoint_list.go")],
 'C18': [("Compactor.majorCompaction (table selection and the base-level loop)", "dkv/sst/compaction.go"), ("Compactor.minorCompaction", "dkv/sst/compaction.go")],
 'C01': [("Assembly.Deploy", "jobs/assembly.go"), ("SplitTracker.AddSplits, TrackAssigned, LoadSplits", "connectors/kinesis/split_tracker.go")],
}
NOTES['x'] = NOTES['v']
if variant == 'x':
    ml = "\n".join(f" - {n}  [{w}]" for n, w in FOCUS_X[prop])
if variant == 'v':
    ml = "\n".join(f" - {n}  [{w}]" for n, w in FOCUS[prop])
NOTE = NOTES[variant]
print(f"""You are doing routine maintenance refactoring on a Go codebase. Work ONLY inside the git worktree {wt} (a checkout of the stream-processing engine reduction-dev/reduction; module reduction.dev/reduction). Do not read or write anything under /verif or /repo. The sandbox has no network. Do NOT use `git stash` (it is shared between worktrees).

CONTEXT: the code below implements this correctness property, and it must KEEP holding after your work.
PROPERTY ({prop}: {p['title']})
Statement: {p['statement']}
Code that makes it hold (the functions you should touch):
{ml}
Files: {', '.join(p.get('anchors', {}).get('files', []))}

YOUR TASK
Produce 8 SEPARATE small patches. Each patch applies ONE behaviour-preserving refactoring (3 to 25 changed lines) to the production source (non-test .go files) of ONE of the functions named above (or a function they directly call in the same files), and each patch applies to the UNCHANGED tree on its own (they are alternatives, not a series). Use a different kind of refactoring for each patch where possible, from this list of everyday clean-up edits:
 1. rename a local variable or parameter
 2. invert a condition and use an early return / continue instead of nesting (or the reverse)
 3. turn an if / else-if chain into a switch (or the reverse)
 4. replace an index loop by an equivalent range loop (or the reverse)
 5. reorder two statements that are independent of each other
 6. introduce a local variable for a sub-expression (or remove a single-use local)
 7. wrap a returned error with fmt.Errorf("...: %w", err), or change a log / error message text, or add a log line
 8. extract a small block (3-10 lines) into a helper function or method
 9. replace a manual loop with an equivalent slices.* / maps.* helper
 10. use `defer mu.Unlock()` via a small closure or helper instead of explicit Unlock calls (same lock span)
Prefer the core logic of the listed functions (the lines that implement the property) over peripheral code. Every patch must leave the observable behaviour IDENTICAL for every input, schedule and failure (same results, same errors returned or not, same ordering of effects visible to other goroutines / files / RPC peers, same locking). Do NOT fix bugs, do NOT change algorithms, do NOT change exported signatures, do not touch tests.

WORKFLOW for patch k (k = 1..8): make the edit; run
   cd {wt} && GOFLAGS=-mod=mod GOEXPERIMENT=synctest go build ./... && GOFLAGS=-mod=mod GOEXPERIMENT=synctest go test -vet=off -count=1 ./<packages you touched and their dependents>/... 2>&1 | grep -v "no test files"
 (generated *.pb.go / *.connect.go files are present and git-ignored; leave them alone; the test rpc TestDNSErrorHandling fails in this sandbox for network reasons - ignore that one only); then save it with `mkdir -p REFAC && git diff -- . ':!REFAC' > REFAC/0k.diff` and undo it with `git checkout -- .` before starting the next one.

DELIVERABLES inside {wt}/REFAC/: 01.diff ... 08.diff and meta.json : {{"property": "{prop}", "patches": [{{"file": "0k.diff", "source_file": "...", "function": "...", "kind": "...", "why_behaviour_preserving": "..."}}, ...]}}
Leave the worktree clean (all edits undone) at the end. Be careful: a 'refactoring' that subtly changes behaviour is a failure of this task - re-read each diff before saving it.
{NOTE}""")
