#!/bin/bash
# Development aid: run the FULL upstream test suite (including the packages the pinned
# baseline cannot build) in a scratch copy of /repo with the protobuf code regenerated.
# Used to validate "fix:" commits. Not part of any registered check.
set -e
D=${1:-/tmp/fullsuite}
rm -rf "$D"; mkdir -p "$D"
rsync -a --exclude .git /repo/ "$D/"
/verif/bin/pbgen -repo "$D" -out "$D" -plugins /verif/bin >/dev/null
cd "$D"
GOEXPERIMENT=synctest go test -vet=off -count=1 ./... 2>&1 | grep -v "no test files" | tail -40
cd /; rm -rf "$D"
