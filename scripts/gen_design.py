#!/usr/bin/env python3
"""Regenerate the generated part of DESIGN.md (section 5: per-property obligations)
from the checker's own obligation table and the evidence files, between the markers
<!-- BEGIN GENERATED OBLIGATIONS --> and <!-- END GENERATED OBLIGATIONS -->."""
import collections, json, os, subprocess
os.chdir(os.path.dirname(os.path.abspath(__file__)) + "/..")
out = subprocess.run(["./bin/verifcheck", "-list"], capture_output=True, text=True, check=True).stdout
rows = [line.split(None, 3) for line in out.splitlines()]
props = {}
for l in open("properties.jsonl"):
    p = json.loads(l)
    props[p["id"]] = p
by = collections.defaultdict(list)
for oid, tmpl, pl, desc in rows:
    for p in pl.split(","):
        by[p].append((oid, tmpl, desc))
s = []
for pid in sorted(props):
    ev = json.load(open("evidence/%s.json" % pid))
    expl = ev["coverage"]["explanation"]
    nd = ev["coverage"]["not_decided"]
    dec = expl.split("Decided: ", 1)[1].split(" NOT decided by this check:")[0]
    s.append("### %s %s\n" % (pid, props[pid]["title"]))
    s.append("*Decided clauses.* %s\n" % dec)
    own = [(o, t, d) for o, t, d in by[pid] if o.startswith(pid)]
    shared = [o for o, t, d in by[pid] if not o.startswith(pid)]
    for oid, tmpl, desc in own:
        s.append("* `%s` [%s] %s" % (oid, tmpl, desc))
    if shared:
        s.append("* shared, evaluated and reported under this property too: " + ", ".join("`%s`" % o for o in shared))
    s.append("\n*Not decided.* %s\n" % nd)
gen = "\n".join(s)
doc = open("DESIGN.md").read()
a, b = "<!-- BEGIN GENERATED OBLIGATIONS -->", "<!-- END GENERATED OBLIGATIONS -->"
i, j = doc.index(a) + len(a), doc.index(b)
doc = doc[:i] + "\n\n" + gen + "\n" + doc[j:]
open("DESIGN.md", "w").write(doc)
print("DESIGN.md section 5 regenerated: %d obligations, %d properties" % (len(rows), len(props)))
