#!/usr/bin/env python3
"""Regenerate the generated part of DESIGN.md (section 5: per-property obligations)
from the checker's own obligation table and the evidence files, between the markers
<!-- BEGIN GENERATED OBLIGATIONS --> and <!-- END GENERATED OBLIGATIONS -->."""
import collections, json, os, subprocess
os.chdir(os.path.dirname(os.path.abspath(__file__)) + "/..")
out = subprocess.run(["./bin/verifcheck", "-list"], capture_output=True, text=True, check=True).stdout
rows = [line.split(None, 3) for line in out.splitlines()]
props = {}
for l in open("properties.jsonl"):
    p = json.loads(l)
    props[p["id"]] = p
by = collections.defaultdict(list)
for oid, tmpl, pl, desc in rows:
    for p in pl.split(","):
        by[p].append((oid, tmpl, desc))
s = []
for pid in sorted(props):
    ev = json.load(open("evidence/%s.json" % pid))
    expl = ev["coverage"]["explanation"]
    nd = ev["coverage"]["not_decided"]
    dec = expl.split("Decided: ", 1)[1].split(" NOT decided by this check:")[0]
    s.append("### %s %s\n" % (pid, props[pid]["title"]))
    s.append("*Decided clauses.* %s\n" % dec)
    own = [(o, t, d) for o, t, d in by[pid] if o.startswith(pid)]
    shared = [o for o, t, d in by[pid] if not o.startswith(pid)]
    for oid, tmpl, desc in own:
        s.append("* `%s` [%s] %s" % (oid, tmpl, desc))
    if shared:
        s.append("* shared, evaluated and reported under this property too: " + ", ".join("`%s`" % o for o in shared))
    s.append("\n*Not decided.* %s\n" % nd)
gen = "\n".join(s)
doc = open("DESIGN.md").read()
a, b = "<!-- BEGIN GENERATED OBLIGATIONS -->", "<!-- END GENERATED OBLIGATIONS -->"
i, j = doc.index(a) + len(a), doc.index(b)
doc = doc[:i] + "\n\n" + gen + "\n" + doc[j:]
import re as _re
doc = _re.sub(r"\((\d+) obligations, section 5 lists", "(%d obligations, section 5 lists" % len(rows), doc, count=1)
open("DESIGN.md", "w").write(doc)
print("DESIGN.md section 5 regenerated: %d obligations, %d properties" % (len(rows), len(props)))

# ---- section 9: canary (mutation) log and seeded log -------------------------------------
import glob, re
can = json.load(open("checker/internal/rules/canaries.json"))
res = {}
for pid in sorted(props):
    try:
        crs = json.load(open("evidence/canaries/%s.json" % pid)) or []
    except FileNotFoundError:
        crs = []
    for cr in crs:
        res[cr.get("id") or cr.get("ID")] = cr
def short(t, n=70):
    t = t.replace("\n", "⏎").replace("\t", "⇥").replace("|", "¦").replace("\\", "")
    return t if len(t) <= n else t[: n - 1] + "…"
rows9 = ["| id | property | file | substitution (old → new, first one) | expectation | reported by |", "|---|---|---|---|---|---|"]
for c in can:
    cr = res.get(c["id"], {})
    rep = cr.get("reports") or cr.get("Reports") or []
    names = sorted({r.split(" ")[0].split("/")[0] for r in rep})
    st = cr.get("status") or cr.get("Status") or "not run in the last thorough tier"
    rows9.append("| %s | %s | `%s` | `%s` → `%s` | %s | %s |" % (
        c["id"], c["property"], c["file"], short(c["subs"][0][0], 48), short(c["subs"][0][1], 48),
        c["expect"] + ((" — " + c["note"]) if c.get("note") and c["expect"] == "silent" else ""),
        (", ".join(names) if names else "—") + " (" + st + ")"))
def put(doc, a, b, text):
    i, j = doc.index(a) + len(a), doc.index(b)
    return doc[:i] + "\n" + text + "\n" + doc[j:]
doc = open("DESIGN.md").read()
doc = put(doc, "<!-- BEGIN MUTATION LOG -->", "<!-- END MUTATION LOG -->", "\n".join(rows9))
srows = ["| seed | property | files | what it breaks (short) | first result | reported by (now) | what was done |", "|---|---|---|---|---|---|---|"]
for d in sorted(glob.glob("seeded/*/meta.json")):
    m = json.load(open(d))
    sid = d.split("/")[1]
    srows.append("| %s | %s | %s | %s | %s | %s | %s |" % (
        sid, m["property"], ", ".join("`%s`" % f for f in (m.get("files_changed") or [])),
        short(m.get("what_breaks") or "", 260), m.get("initial_result"), short(m.get("detected_by") or "", 200), short(m.get("what_was_done") or "", 400)))
doc = put(doc, "<!-- BEGIN SEEDED LOG -->", "<!-- END SEEDED LOG -->", "\n".join(srows))
open("DESIGN.md", "w").write(doc)
print("DESIGN.md section 9 regenerated: %d canaries, %d seeds" % (len(can), len(srows) - 2))
