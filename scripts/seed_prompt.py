#!/usr/bin/env python3
"""Development aid: write the prompt for a fresh sub-agent that seeds one breaking change.
usage: seed_prompt.py <PROP> <SEEDID> [anchor-index]  -> prints the prompt
The agent is given only the property text and a scratch worktree; nothing from /verif."""
import json, sys, glob, os
prop, sid = sys.argv[1], sys.argv[2]
focus = int(sys.argv[3]) if len(sys.argv) > 3 else None
P = {}
for l in open('/verif/properties.jsonl'):
    d = json.loads(l); P[d['id']] = d
p = P[prop]
wt = f'/tmp/seed/{sid}'
mech = p.get('anchors', {}).get('mechanism') or []
lines = []
def mline(m):
    if isinstance(m, dict):
        return f" - {m.get('name')}  [{m.get('where') or m.get('at') or ''}]"
    return f" - {m}"
taken = []
for m in sorted(glob.glob('/verif/seeded/*/meta.json')):
    d = json.load(open(m))
    f = (d.get('files_changed') or ['?'])[0]
    taken.append(f"- {f}: {d.get('what_breaks','')[:160]}")
out = f"""You are testing the robustness of a Go codebase's correctness property. Work ONLY inside the git worktree {wt} (a checkout of the stream-processing engine reduction-dev/reduction; module reduction.dev/reduction). Do not read or write anything under /verif or /repo. The sandbox has no network.

THE PROPERTY ({prop}: {p['title']})
Statement: {p['statement']}
It must hold: {p['quantifier']['text']}
Code that is meant to make it hold (starting points, read whatever else you need in the worktree):
""" + "\n".join(mline(m) for m in mech) + f"""
Files: {', '.join(p.get('anchors', {}).get('files', []))}

YOUR TASK
Make ONE small, realistic change to the production source (non-test .go files) in {wt} that BREAKS this property, such that:
 1. the worktree still compiles and the whole existing test suite still passes. Run exactly:
      cd {wt} && GOFLAGS=-mod=mod GOEXPERIMENT=synctest go build ./... && GOFLAGS=-mod=mod GOEXPERIMENT=synctest go test -vet=off -count=1 ./... 2>&1 | grep -v "no test files"
    (the generated *.pb.go / *.connect.go files are already present and git-ignored; leave them alone. The single test rpc TestDNSErrorHandling fails in this sandbox for network reasons with or without your change - ignore that one only.)
 2. the breakage needs something SPECIFIC to manifest - a particular interleaving, a crash / fault at a particular point, a multi-step sequence of operations, an unusual input or configuration, or two cooperating sites that each look fine alone. Not something ordinary use would expose at once, and not something the existing tests catch.
 3. it is the kind of mistake a developer could plausibly make (flipped or off-by-one comparison, dropped or reordered step, missing lock / guard / reset, wrong operand, lost error check, swapped arguments, stale value reuse, ...). Do not just delete a whole feature. Do not rename things. Keep it to a few lines in one or two files.
 4. you write a DEMONSTRATION: a new Go test file (name it zz_seed_{sid}_test.go, in the package where it is most natural) that FAILS with your change applied and PASSES on the unchanged code. It must be deterministic (for concurrency, force the interleaving with channels / hooks available in the code / fake clocks, or reason with a direct unit-level call sequence). Verify both: run it with your change (must fail), then remove your source change only (keep the test file) with `git diff -- <changed files> > /tmp/seed/{sid}.own.diff && git checkout -- <changed files>`, run it (must pass), then re-apply with `git apply /tmp/seed/{sid}.own.diff`. Do NOT use `git stash`: the stash is shared between all worktrees of this repository and other people are working in sibling worktrees.

DELIVERABLES (write them inside {wt}/SEED/):
 - SEED/patch.diff : `git diff` of the production-source change only (NOT including the demonstration test file or SEED/ itself)
 - SEED/demo_test.go : a copy of your demonstration test file, first line a comment naming the package directory it belongs in
 - SEED/meta.json : {{"property": "{prop}", "files_changed": [...], "what_breaks": "...", "needs_to_manifest": "...", "demo_cmd": "the exact go test command for the demonstration", "suite_passes_with_change": true/false, "demo_fails_with_change": true/false, "demo_passes_without_change": true/false}}
Leave the worktree with your source change APPLIED and the demonstration test file in place. Report briefly what you changed and the verification results. If after honest effort you cannot find a change meeting all four conditions, say so and explain what you tried.
"""
if focus is not None and mech:
    m = mech[focus % len(mech)]
    out += f"\nFOCUS: several people are working on this property independently. To spread out, aim your change at this part of it if you can: {mline(m).strip(' -')}. If that part turns out to be well protected by the existing tests, pick another part of the property.\n"
out += "\nALREADY TAKEN (other people already submitted these changes; do something different, in a different function if possible):\n" + "\n".join(taken) + "\n"
print(out)
