#!/bin/bash
# Build the checker offline from files on disk only. Run once after a fresh restore.
set -euo pipefail
cd "$(dirname "$0")/.."
export PATH=/opt/veriftools/go1.26.8/bin:$PATH
export GOFLAGS=-mod=mod GOPROXY=off GOSUMDB=off GOTOOLCHAIN=local GOWORK=off CGO_ENABLED=0
mkdir -p bin evidence/replays
(cd pbgen && go build -o ../bin/pbgen . \
  && go build -o ../bin/protoc-gen-go google.golang.org/protobuf/cmd/protoc-gen-go \
  && go build -o ../bin/protoc-gen-connect-go connectrpc.com/connect/cmd/protoc-gen-connect-go)
(cd checker && go build -o ../bin/verifcheck ./cmd/verifcheck)
./bin/verifcheck -list >/dev/null
echo "setup ok: $(./bin/verifcheck -list | wc -l) obligations registered"
