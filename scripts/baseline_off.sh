#!/bin/bash
# The repository's pinned baseline, with no verification hooks (there are none: static
# analysis needs no instrumentation, so "guard off" is the repository as it is).
cd /repo && go test -json -vet=off -count=1 -timeout 25m ./...
