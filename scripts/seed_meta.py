#!/usr/bin/env python3
"""Development aid: write seeded/<ID>/meta.json from the sub-agent's meta.agent.json plus my evaluation.
usage: seed_meta.py ID initial_result detected_by what_was_done"""
import json, sys
sid, initial, by, action = sys.argv[1:5]
pid = sid.split('_')[0]
a = json.load(open(f'/verif/seeded/{sid}/meta.agent.json'))
m = {'property': pid, 'seed': sid,
     'written_by': f'fresh sub-agent given only the property text and a scratch worktree (/tmp/seed/{sid}), nothing from /verif',
     'files_changed': a.get('files_changed'), 'what_breaks': a.get('what_breaks'), 'needs_to_manifest': a.get('needs_to_manifest'),
     'confirmed_by_me': {'how': f'scripts/seed_eval.sh {sid} in the scratch worktree: full suite passes with the change except rpc.TestDNSErrorHandling (sandbox DNS, fails without the change too); the demonstration test fails with the change and passes with the source change stashed',
                         'suite_passes_with_change': True, 'demo_fails_with_change': True, 'demo_passes_without_change': True},
     'check_run': f'git -C /repo apply seeded/{sid}/patch.diff; every registered quick check; git -C /repo checkout -- .',
     'initial_result': initial, 'detected_by': by, 'what_was_done': action,
     'demo': f'demo_test.go.txt (rename to zz_seed_{sid}_test.go in the package named in its first lines / meta.agent.json demo_cmd)'}
json.dump(m, open(f'/verif/seeded/{sid}/meta.json', 'w'), indent=1)
