#!/bin/bash
# Development aid: re-apply every stored behaviour-preserving refactoring patch
# (refactors/*/0*.diff) to /repo, one at a time, and require all obligations to stay silent.
cd /verif
ok=0; bad=0
for d in refactors/*/0*.diff; do
  git -C /repo apply /verif/$d 2>/dev/null || { echo "[$d] does not apply"; continue; }
  out=$(/verif/bin/verifall 2>&1); rc=$?
  git -C /repo checkout -- .
  if [ $rc -eq 0 ]; then ok=$((ok+1)); else bad=$((bad+1)); echo "[$d] ALARM"; echo "$out" | cut -c1-220 | sed 's/^/    /'; fi
done
echo "refactoring corpus: $ok silent, $bad alarms"
