#!/bin/bash
# Development aid: create a scratch git worktree of /repo for a sub-agent, with the generated
# protobuf code physically present (git-ignored there), and write its prompt next to it.
# usage: seed_worktree.sh <PROP> <SEEDID> [focus-index]      (worktree: /tmp/seed/<SEEDID>)
set -eu
PROP=$1; ID=$2; FOCUS=${3:-}
mkdir -p /tmp/seed/prompts
git -C /repo worktree add --detach /tmp/seed/$ID HEAD >/dev/null 2>&1
/verif/bin/pbgen -repo /repo -plugins /verif/bin -out /tmp/seed/$ID >/dev/null
python3 /verif/scripts/seed_prompt.py $PROP $ID $FOCUS > /tmp/seed/prompts/$ID.txt
echo "/tmp/seed/$ID ready; prompt /tmp/seed/prompts/$ID.txt"
