#!/usr/bin/env python3
"""Development aid (never a registered check): for mutants that survived every obligation
(mutsweep results), apply each one to a scratch worktree and run the upstream test suite,
to separate 'the tests would have caught it' from 'compiles, passes the tests, and no
obligation reports it' (the gaps worth reading).
usage: mut_tests.py WORKTREE SHARD/N OUT.jsonl RESULTS.jsonl..."""
import json, os, subprocess, sys
wt, shard, out = sys.argv[1:4]
si, sn = map(int, shard.split('/'))
res = []
for f in sys.argv[4:]:
    for l in open(f):
        try: res.append(json.loads(l))
        except Exception: pass
todo = [r for r in res if r['status'] in ('survived', 'error')]
PRI = {'del-stmt': 0, 'del-assign': 0, 'del-if': 0, 'del-if-body': 0, 'swap-args': 1, 'binop': 1, 'break->continue': 1, 'continue->break': 1, 'drop-not': 2, 'flip-bool-return': 2, 'negate-if': 3, 'lit+1': 4, 'lit-1': 4}
SKIPF = ('String', 'Diagnostics', 'Validate', 'Close', 'New', 'Open')
todo = [r for r in todo if not any(r['func'].endswith(x) for x in SKIPF) and not r['file'].startswith(('dkv/storage/', 'storage/locations/', 'storage/objstore/', 'connectors/read_source', 'config/'))]
todo.sort(key=lambda r: (PRI.get(r['op'].split(' ')[0], 5), r['id']))
done = set()
if os.path.exists(out):
    for l in open(out):
        try: done.add(json.loads(l)['id'])
        except Exception: pass
env = dict(os.environ, GOFLAGS='-mod=mod', GOEXPERIMENT='synctest')
for k in ('GOTOOLCHAIN', 'GOWORK', 'GOPROXY', 'GOSUMDB'): env.pop(k, None)
def run(pkgs='./...'):
    p = subprocess.run(['/usr/bin/go', 'test', '-count=1', '-vet=off', '-timeout=60s'] + pkgs.split(), cwd=wt, env=env, capture_output=True, text=True)
    fails = [l for l in p.stdout.splitlines() if l.startswith('--- FAIL') or l.startswith('FAIL') or 'panic:' in l or '[build failed]' in l]
    fails = [l for l in fails if 'TestDNSErrorHandling' not in l and l.strip() not in ('FAIL', 'FAIL\treduction.dev/reduction/rpc') and not l.startswith('FAIL\treduction.dev/reduction/rpc')]
    if sum(1 for l in p.stdout.splitlines() if l.startswith('ok')) < (20 if pkgs == './...' else 1) and not fails:
        raise SystemExit('go test did not run: ' + p.stdout[-300:] + p.stderr[-300:])
    return fails
with open(out, 'a') as fo:
    for r in todo:
        if r['id'] % sn != si or r['id'] in done: continue
        path = os.path.join(wt, r['file'])
        src = open(path, 'rb').read()
        if src[r['start']:r['end']].decode() != r['old']:
            continue
        open(path, 'wb').write(src[:r['start']] + r['new'].encode() + src[r['end']:])
        try:
            top = r['file'].split('/')[0]
            fails = run('./%s/...' % top)          # the mutant's own tree first (fast kill)
            if not fails: fails = run()            # then everything
            if fails and any('e2e' in l or 'rpc' in l or 'jobs' in l for l in fails) and not any('/' + top in l for l in fails):
                fails = run() or []                # timing-sensitive packages only: once more
            if fails: fails = fails[:6]
        finally:
            open(path, 'wb').write(src)
        r2 = dict(r); r2['tests'] = 'killed' if fails else 'passed'; r2['fails'] = fails
        fo.write(json.dumps(r2) + '\n'); fo.flush()
