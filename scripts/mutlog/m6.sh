cd /verif
./scripts/mut.sh C11 workers/wmark/watermarks.go 's/w.allowedLateness \+ time.Nanosecond/w.allowedLateness/'
./scripts/mut.sh C11 workers/wmark/watermarks.go 's/eventTimestamp.After\(w.maxTimestamp\)/!eventTimestamp.Equal(w.maxTimestamp)/'
./scripts/mut.sh C11 util/iteru/iteru.go 's/cmp\(cur, \*min\) < 0/cmp(cur, *min) > 0/'
./scripts/mut.sh C11 workers/operator/timer_registry.go 's/upstreams\[id\] = time.Unix\(0, 0\)/upstreams[id] = time.Now()/'
./scripts/mut.sh C11 workers/operator/timer_registry.go 's/\tr.upstreams\[senderID\] = wm.Timestamp.AsTime\(\)\n\tcompositeWatermark := iteru.MinFunc\(maps.Values\(r.upstreams\), time.Time.Compare\)/\tcompositeWatermark := iteru.MinFunc(maps.Values(r.upstreams), time.Time.Compare)\n\tr.upstreams[senderID] = wm.Timestamp.AsTime()/'
./scripts/mut.sh C11 workers/sourcerunner/source_runner.go 's/\t\t\tr.watermarker.AdvanceTime\(event.Timestamp.AsTime\(\)\)\n(\t\t\tr.operators.routeEvent\(event.Key, &workerpb.Event\{\n.*\n.*\n.*\n\t\t\t\}\)\n)/$1\t\t\tr.watermarker.AdvanceTime(event.Timestamp.AsTime())\n/'
./scripts/mut.sh C11 workers/operator/operator.go 's/Watermark: timestamppb.New\(o.timerRegistry.watermark\)/Watermark: timestamppb.Now()/'
