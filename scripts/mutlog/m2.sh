cd /verif
./scripts/mut.sh C12 storage/snapshots/store.go 's/\tif s.state.pendingSnapshot.id != req.CheckpointId \{\n.*\n\t\}\n//'
./scripts/mut.sh C12 storage/snapshots/store.go 's/\t\ts.finishSnapshot\(s.state.pendingSnapshot\)\n\t\ts.state.pendingSnapshot = nil\n\t\}\n\treturn nil\n\}\n\nfunc \(s \*Store\) AddSource/\t\ts.finishSnapshot(s.state.pendingSnapshot)\n\t}\n\treturn nil\n}\n\nfunc (s *Store) AddSource/'
./scripts/mut.sh C12 storage/snapshots/snapshot.go 's/iteru.Every\(maps.Values\(s.sourceRunnerIDsComplete\)\) &&\n\t\t//'
./scripts/mut.sh C12 storage/snapshots/store.go 's/s.state.checkpointID = loadedCheckpoint.Id\n//'
./scripts/mut.sh C12 storage/snapshots/store.go 's/func \(s \*Store\) CreateCheckpoint\(operatorIDs, sourceRunnerIDs \[\]string\) \(uint64, error\) \{\n\ts.stateMu.Lock\(\)\n\tdefer s.stateMu.Unlock\(\)\n/func (s *Store) CreateCheckpoint(operatorIDs, sourceRunnerIDs []string) (uint64, error) {\n/'
./scripts/mut.sh C12 storage/snapshots/snapshot.go 's/if wasCompleted \{\n\t\treturn fmt.Errorf/if false {\n\t\treturn fmt.Errorf/'
