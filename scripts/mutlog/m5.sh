cd /verif
./scripts/mut.sh C10 workers/operator/timer_registry.go 's/\t\t\tr.store.Delete\(timer\)\n\t\t\tif !yield\(timer.Key, timer.Timestamp\) \{\n\t\t\t\treturn\n\t\t\t\}/\t\t\tif !yield(timer.Key, timer.Timestamp) {\n\t\t\t\treturn\n\t\t\t}\n\t\t\tr.store.Delete(timer)/'
./scripts/mut.sh C10 workers/operator/timer_registry.go 's/if !r.watermark.Before\(t\) \{/if r.watermark.After(t) {/'
./scripts/mut.sh C10 workers/operator/timer_registry.go 's/timer.Timestamp.After\(compositeWatermark\)/!timer.Timestamp.Before(compositeWatermark)/'
./scripts/mut.sh C10 workers/operator/timer_store.go 's/\tpq.db.Put\(data, nil\) \/\/ write-through cache to db\n//'
./scripts/mut.sh C10 util/ds/partitioned_priority_queue.go 's/\tpartition.Delete\(item\)\n\tp.heap.Fix\(partition.Index\(\)\)/\tpartition.Delete(item)/'
./scripts/mut.sh C10 workers/operator/timer_store.go 's/func \(pq \*KeyGroupPriorityQueue\) Peek\(\) \(\[\]byte, bool\) \{\n\tpq.loadFromDB\(\)\n/func (pq *KeyGroupPriorityQueue) Peek() ([]byte, bool) {\n/'
./scripts/mut.sh C10 workers/operator/timer_store.go 's/prefix\[2\] = 0x01 \/\/ Schema byte/prefix[2] = 0x00 \/\/ Schema byte/'
