cd /verif
./scripts/mut.sh C18 dkv/sst/compaction.go 's/break selectTables/break/'
./scripts/mut.sh C18 dkv/sst/compaction.go 's/\t\tcs.AddTables\(1, newL1Tables...\)\n\t\tcs.RemoveTables\(inputTables...\)/\t\tcs.AddTables(1, newL1Tables...)\n\t\tcs.RemoveTables(slices.Collect(levels.At(0).AllTables())...)/'
./scripts/mut.sh C18 dkv/sst/compaction.go 's/inputTables := slices.Collect\(iteru.Concat\(levels.At\(0\).AllTables\(\), levels.At\(1\).AllTables\(\)\)\)/inputTables := slices.Collect(levels.At(0).AllTables())/'
./scripts/mut.sh C18 dkv/sst/compaction.go 's/\t\tif scanErr != nil \{\n\t\t\treturn nil, scanErr\n\t\t\}\n\t\tif err != nil \{\n\t\t\treturn nil, err\n\t\t\}\n\n\t\t\/\/ Create new levels/\t\tif err != nil {\n\t\t\treturn nil, err\n\t\t}\n\t\t_ = scanErr\n\n\t\t\/\/ Create new levels/'
./scripts/mut.sh C18 dkv/sst/compaction.go 's/cs.AddTables\(level.Num\+1, newTable...\)/cs.AddTables(level.Num, newTable...)/'
./scripts/mut.sh C18 dkv/db.go 's/db.sstables = db.sstables.NewWithChangeSet\(cs\)\n\t\t\t\tdb.mu.Unlock\(\)/db.sstables = db.currentSSTablesUnlocked().NewWithChangeSet(cs)\n\t\t\t\tdb.mu.Unlock()/; s/func \(db \*DB\) currentSSTables\(\)/func (db *DB) currentSSTablesUnlocked() *sst.LevelList { return db.sstables }\n\nfunc (db *DB) currentSSTables()/'
