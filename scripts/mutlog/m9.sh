cd /verif
./scripts/mut.sh C03 dkv/db.go 's/\t\t\tif entry.IsDelete\(\) \{\n\t\t\t\tcontinue\n\t\t\t\}\n\t\t\tif !yield\(entry\) \{\n\t\t\t\treturn\n\t\t\t\}\n\t\t\}\n\t\}\n\}\n\n\/\/ Checkpoint/\t\t\tif !yield(entry) {\n\t\t\t\treturn\n\t\t\t}\n\t\t}\n\t}\n}\n\n\/\/ Checkpoint/'
./scripts/mut.sh C03 workers/operator/keyed_state_store.go 's/case \*handlerpb.StateMutation_Delete:\n\t\t\t\tmut := mutation.GetDelete\(\)\n\t\t\t\ts.db.Delete\(s.encodeDBKey\(subjectKey, namespace.Namespace, mut.Key\)\)/case *handlerpb.StateMutation_Delete:\n\t\t\t\tmut := mutation.GetDelete()\n\t\t\t\ts.db.Put(s.encodeDBKey(subjectKey, namespace.Namespace, mut.Key), nil)/'
./scripts/mut.sh C03 workers/operator/operator.go 's/o.stateStore.ApplyMutations\(keyResult.Key, keyResult.StateMutationNamespaces\)/o.stateStore.ApplyMutations(resp.KeyResults[0].Key, keyResult.StateMutationNamespaces)/'
./scripts/mut.sh C03 workers/operator/keyed_state_store.go 's/s.db.ScanPrefix\(s.encodeSubjectKey\(key\), &scanErr\)/s.db.ScanPrefix(key, \&scanErr)/'
./scripts/mut.sh C03 dkv/sst/level_list.go 's/\t\t\t\/\/ Skip deleted entries\n\t\t\tif entry.IsDelete\(\) \{\n\t\t\t\tcontinue\n\t\t\t\}\n//'
