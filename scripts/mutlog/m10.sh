cd /verif
./scripts/mut.sh C06 jobs/assembly.go 's/opCkptAssignments\[i\]\)/opCkptAssignments[0])/'
./scripts/mut.sh C06 dkv/recovery/checkpoint_list.go 's/\tfor _, doc := range rest \{/\tfor _, doc := range rest[:0] {/'
./scripts/mut.sh C06 dkv/sst/table_writer.go 's/t.endSeqNum = max\(t.endSeqNum, entry.SeqNum\(\)\)/t.endSeqNum = min(t.endSeqNum, entry.SeqNum())/'
./scripts/mut.sh C06 dkv/db.go 's/\tdb.seqNum = latestCP.Levels.LatestSeqNum\n//'
./scripts/mut.sh C06 dkv/db.go 's/\t\tif !db.dataOwnership.OwnsKey\(entry.K\) \{\n\t\t\tcontinue\n\t\t\}\n//'
./scripts/mut.sh C06 partitioning/key_space.go 's/\t\t\tif toRange.Overlaps\(fromRange\) \{\n\t\t\t\tassignments\[toIdx\] = append\(assignments\[toIdx\], fromIdx\)\n\t\t\t\}/\t\t\tif toRange.Overlaps(fromRange) {\n\t\t\t\tassignments[toIdx] = append(assignments[toIdx], fromIdx)\n\t\t\t\tbreak\n\t\t\t}/'
