cd /verif
./scripts/mut.sh C16 connectors/kinesis/split_tracker.go 's/\t\tif assigned \{\n\t\t\tcontinue\n\t\t\}\n//'
./scripts/mut.sh C16 connectors/kinesis/split_tracker.go 's/if !hasKnownParent \{/if hasKnownParent {/'
./scripts/mut.sh C16 connectors/kinesis/source_splitter.go 's/\ts.hooks.AssignSplits\(assignments\)\n\ts.splitTracker.TrackAssigned\(shards\)/\ts.splitTracker.TrackAssigned(shards)\n\ts.hooks.AssignSplits(assignments)/'
./scripts/mut.sh C16 connectors/kinesis/source_splitter_shard.go 's/\t\tParentShardIds: s.ParentIDs,\n//'
./scripts/mut.sh C16 connectors/kinesis/split_tracker.go 's/func \(st \*SplitTracker\) AssignedSplits\(\) \[\]SourceSplitterShard \{\n\tst.mu.Lock\(\)\n\tdefer st.mu.Unlock\(\)\n/func (st *SplitTracker) AssignedSplits() []SourceSplitterShard {\n/'
./scripts/mut.sh C16 connectors/kinesis/source_splitter.go 's/Cursor:   \[\]byte\(s.cursors\[shard.ShardID\]\),/Cursor:   nil,/'
