cd /verif
./scripts/mut.sh C04 workers/sourcerunner/source_runner.go 's/\tr.outputStream <- &workerpb.Event\{Event: &workerpb.Event_KeyedEvent\{\}\}\n\tr.keyEventChannel.Add\(ctx, event\)/\tr.keyEventChannel.Add(ctx, event)\n\tr.outputStream <- &workerpb.Event{Event: &workerpb.Event_KeyedEvent{}}/'
./scripts/mut.sh C04 workers/sourcerunner/operator_cluster.go 's/rangeIndex := c.keySpace.RangeIndex\(key\)/rangeIndex := int(c.keySpace.KeyGroup(key)) % len(c.operators)/'
./scripts/mut.sh C04 workers/sourcerunner/source_runner.go 's/func \(r \*SourceRunner\) HandleStartCheckpoint\(ctx context.Context, id uint64\) \{\n\tr.checkpointBarrier <- &workerpb.CheckpointBarrier\{CheckpointId: id\}/func (r *SourceRunner) HandleStartCheckpoint(ctx context.Context, id uint64) {\n\tr.createCheckpoint(id)\n\tr.outputStream <- &workerpb.Event{Event: &workerpb.Event_CheckpointBarrier{CheckpointBarrier: &workerpb.CheckpointBarrier{CheckpointId: id}}}/'
./scripts/mut.sh C04 workers/sourcerunner/operator_cluster.go 's/func \(o \*batchingOperator\) Flush\(\) \{\n\to.batches <- o.batcher.Flush\(batching.CurrentBatch\)/func (o *batchingOperator) Flush() {\n\tgo o.op.HandleEventBatch(context.Background(), o.batcher.Flush(batching.CurrentBatch))/'
./scripts/mut.sh C20 batching/batching.go 's/\(token != CurrentBatch && b.batchToken != token\)/(token != CurrentBatch \&\& b.batchToken > token)/'
./scripts/mut.sh C20 batching/batching.go 's/\tb.batchToken = b.batchToken \+ 1\n//'
./scripts/mut.sh C20 batching/reorder_buffer.go 's/\t\t\t\tb.drainedSeqNum\+\+\n\n\t\t\t\t<-b.reserved/\t\t\t\tb.drainedSeqNum++\n/'
./scripts/mut.sh C20 batching/batching.go 's/b.BatchTimedOut <- currentBatchToken/b.BatchTimedOut <- b.batchToken/'
