cd /verif
./scripts/mut.sh C09 dkv/recovery/checkpoint_list.go 's/if idsSet.Has\(cp.ID\) \{/if !idsSet.Has(cp.ID) {/'
./scripts/mut.sh C09 dkv/recovery/checkpoint_list.go 's/\tif _, err = file.Write\(data\); err != nil \{\n\t\treturn "", err\n\t\}\n\tif err := file.Save\(\); err != nil \{\n\t\treturn "", err\n\t\}\n\n(.*\n.*\n.*\n.*\n.*\n.*\n)/$1\n\tif _, err = file.Write(data); err != nil {\n\t\treturn "", err\n\t}\n\tif err := file.Save(); err != nil {\n\t\treturn "", err\n\t}\n/'
./scripts/mut.sh C09 dkv/sst/table.go 's/\t\tif canDelete \{\n/\t\tif canDelete || err == nil {\n/'
./scripts/mut.sh C09 dkv/recovery/checkpoint.go 's/func \(cp \*Checkpoint\) Document/func (cp *Checkpoint) Drop() { for _, w := range cp.WALs { w.Delete() } }\n\nfunc (cp *Checkpoint) Document/'
./scripts/mut.sh C09 workers/operator/operator.go 's/return o.db.NeedsTable\(fileURI\)/return false/'
