cd /verif
./scripts/mut.sh C19 util/ds/heap.go 's/h.compare\(h.data\[right\], h.data\[left\]\) < 0/h.compare(h.data[right], h.data[left]) > 0/'
./scripts/mut.sh C19 util/ds/heap.go 's/\t\th.assignIndex\(h.data\[j\], j\)\n//'
./scripts/mut.sh C19 util/ds/set.go 's/\t\tif !s.Has\(v\) \{\n\t\t\ts.m\[v\] = struct\{\}\{\}\n\t\t\ts.l = append\(s.l, v\)\n\t\t\}/\t\ts.m[v] = struct{}{}\n\t\ts.l = append(s.l, v)/'
./scripts/mut.sh C19 util/ds/sorted_map.go 's/\tsm.ensureSorted\(\)\n\tindex, found := slices.BinarySearch/\tindex, found := slices.BinarySearch/'
./scripts/mut.sh C19 dkv/mergesort/merge.go 's/item, ok := nextFns\[ii.index\]\(\)/item, ok := nextFns[0]()/'
./scripts/mut.sh C19 dkv/mergesort/merge.go 's/\t\t\t\tif prevItem != nil \{\n\t\t\t\t\tyield\(prevItem.item\)\n\t\t\t\t\}\n\t\t\t\treturn/\t\t\t\treturn/'
./scripts/mut.sh C19 dkv/ziptree/ziptree.go 's/\t\tif keyCmp == -1 \{\n\t\t\tcur = cur.left\n\t\t\} else \{\n\t\t\tcur = cur.right/\t\tif keyCmp == 1 {\n\t\t\tcur = cur.left\n\t\t} else {\n\t\t\tcur = cur.right/'
./scripts/mut.sh C19 dkv/ziptree/ziptree.go 's/\tnode.rank = cur.rank\n//'
