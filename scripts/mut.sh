#!/bin/bash
# usage: mut.sh PROP FILE PERL_EXPR  -- apply a perl substitution to /repo/FILE, run the check, revert.
# Development aid only (never part of a registered check).
PROP=$1; FILE=$2; EXPR=$3
cd /repo || exit 9
git diff --quiet -- "$FILE" || { echo "dirty $FILE"; exit 9; }
perl -0pi -e "$EXPR" "$FILE"
if git diff --quiet -- "$FILE"; then echo "MUTATION DID NOT APPLY"; exit 8; fi
git diff -- "$FILE" | grep '^[-+]' | grep -v '^+++\|^---' | head -12
for p in $(echo $PROP | tr , ' '); do
/verif/bin/verifcheck -property $p 2>&1 | grep -E "^(VIOLATION|ERROR|  [a-z].*:[0-9]+: )" | grep -v "C01.a/" | cut -c1-330
done
git checkout -- "$FILE"
