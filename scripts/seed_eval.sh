#!/bin/bash
# Development aid: evaluate an independently written breaking change left by a sub-agent in
# /tmp/seed/<ID>/SEED. (1) re-verify it in its scratch worktree: suite passes with the
# change, demonstration fails with it and passes without; (2) copy it to /verif/seeded/<ID>;
# (3) apply the patch to /repo, run every registered quick check, undo.
set -u
ID=$1; NAME=${2:-$1}; WT=/tmp/seed/$ID
[ -f $WT/SEED/patch.diff ] || { echo "no SEED/patch.diff in $WT"; exit 9; }
cd $WT
DEMO=$(ls $(git ls-files --others --exclude-standard | grep 'zz_seed.*_test.go') 2>/dev/null | head -1)
PKG=./$(dirname "$DEMO")
echo "== demo file: $DEMO"
GO="env -u GOTOOLCHAIN -u GOPROXY -u GOSUMDB -u GOWORK GOFLAGS=-mod=mod GOEXPERIMENT=synctest /usr/bin/go"
echo "== suite with change"; $GO build ./... && $GO test -vet=off -count=1 ./... 2>&1 | grep -v "no test files\|^ok" | grep -v "INFO\|http_client\|Error\|expected\|in chain\|dial tcp\|lookup non\|asm_amd64\|Test:" | head -8
echo "== demo with change (want FAIL)"; $GO test -vet=off -count=1 -run 'Seed' $PKG 2>&1 | grep -v INFO | tail -3
CH=$(git diff --name-only); git diff > /tmp/seed/.$ID.eval.diff; git checkout -- $CH   # (git stash is shared between worktrees: not used)
echo "== demo without change (want ok)"; $GO test -vet=off -count=1 -run 'Seed' $PKG 2>&1 | grep -v INFO | tail -2
git apply /tmp/seed/.$ID.eval.diff && rm -f /tmp/seed/.$ID.eval.diff
mkdir -p /verif/seeded/$NAME
git diff > /verif/seeded/$NAME/patch.diff
cp "$DEMO" /verif/seeded/$NAME/demo_test.go.txt
cp SEED/meta.json /verif/seeded/$NAME/meta.agent.json 2>/dev/null
echo "== checks on /repo with the patch applied"
cd /repo && git apply /verif/seeded/$NAME/patch.diff || { echo "PATCH DOES NOT APPLY to /repo"; exit 8; }
for p in $(python3 -c "import json;print(' '.join(c['property_id'] for c in json.load(open('/verif/MANIFEST.json'))['checks']))"); do
  out=$(/verif/bin/verifcheck -property $p -tier quick 2>&1); rc=$?
  if [ $rc -ne 0 ]; then echo "[$p rc=$rc]"; echo "$out" | grep -E "^(ERROR|  [a-z].*:[0-9]+: )" | cut -c1-260 | head -6; fi
done
git -C /repo checkout -- .
echo "== done"
