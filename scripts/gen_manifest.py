#!/usr/bin/env python3
"""Regenerate MANIFEST.json from the obligations the checker has registered."""
import json, subprocess, collections, os
os.chdir(os.path.dirname(os.path.abspath(__file__)) + "/..")
props = [json.loads(l) for l in open("properties.jsonl")]
out = subprocess.run(["./bin/verifcheck", "-list"], capture_output=True, text=True, check=True).stdout
by = collections.defaultdict(list)
for line in out.splitlines():
    parts = line.split(None, 3)
    oid, tmpl, plist = parts[0], parts[1], parts[2]
    for p in plist.split(","):
        by[p].append((oid, tmpl))
claimed = set(subprocess.run(["./bin/verifcheck", "-listprops"], capture_output=True, text=True, check=True).stdout.split())
pending = json.load(open("scripts/not_applicable.json")) if os.path.exists("scripts/not_applicable.json") else {}
checks, na = [], []
for p in props:
    pid = p["id"]
    obs = by.get(pid, [])
    if not obs or pid in pending or pid not in claimed:
        na.append({"property_id": pid, "reason": pending.get(pid, "no structural obligation registered yet (checker under construction, see DESIGN.md section 5)")})
        continue
    tmpls = sorted({t for _, t in obs})
    checks.append({
        "property_id": pid,
        "quick_cmd": f"./bin/verifcheck -property {pid} -tier quick",
        "thorough_cmd": f"./bin/verifcheck -property {pid} -tier thorough",
        "evidence_file": f"evidence/{pid}.json",
        "replay_cmd_template": "./bin/verifcheck -replay {path}",
        "engine": "verifcheck",
        "level_claimed": {
            "category": "other",
            "text": ("Static analysis only: decides %d structural obligations (%s) that are necessary conditions of the property, on every path / call site / ordering of the current source. "
                     "It does not decide the behavioural property itself; the clauses not decided are listed in the evidence file and DESIGN.md.") % (len(obs), ", ".join(o for o, _ in obs)),
            "design_ref": f"DESIGN.md section 5, {pid}",
        },
        "level_note": "Trusted base: go/types, go/ast (go1.26.8), go/packages (x/tools v0.50.0), the regenerated protobuf code (real protoc plugins driven by pbgen), the frozen rule tables and specification predicates in checker/internal/rules. Assumes goroutine roots as listed in DESIGN.md section 4 and no unsafe/reflect in anchored code.",
        "technique": "static analysis: " + "; ".join(tmpls),
    })
m = {
    "version": 1,
    "setup_cmd": "./scripts/setup.sh",
    "hooks": {"guard": "verif", "enable": "none: static analysis of the source needs no hooks; no build tag is used and /repo contains no instrumentation",
              "baseline_off_cmd": "./scripts/baseline_off.sh", "source_commits": [], "add_only": True},
    "engines": [{"name": "verifcheck", "path": "checker/cmd/verifcheck", "serves_properties": [c["property_id"] for c in checks],
                 "kind_free_text": "repository-specific static analyser: path simulator over the typed AST, who-may / confinement over resolved uses, order-domain truth tables, codec token abstraction, lock-discipline"}],
    "checks": checks,
    "notes": "All checks are static (no code of /repo is executed). Genuine defects found by the rules were repaired in /repo as 'fix:' commits or are listed in known_findings.txt.",
    "not_applicable": na,
}
json.dump(m, open("MANIFEST.json", "w"), indent=1)
print(len(checks), "checks;", len(na), "not applicable")
