#!/bin/bash
# Development aid: run every registered check's quick command and validate evidence.
cd /verif
fail=0
for p in $(python3 -c "import json;print(' '.join(c['property_id'] for c in json.load(open('MANIFEST.json'))['checks']))"); do
  out=$(./bin/verifcheck -property $p -tier ${1:-quick} 2>&1); rc=$?
  echo "$out" | tail -1
  if [ $rc -ne 0 ]; then fail=1; echo "$out" | grep -E "^(VIOLATION|ERROR)" | head -5; fi
  python3-vt - <<PY || fail=1
import json,jsonschema
jsonschema.validate(json.load(open('/verif/evidence/$p.json')),json.load(open('/root/.vp/EVIDENCE.schema.json')))
PY
done
exit $fail
