#!/bin/bash
# Development aid: evaluate the single-refactoring patches of /tmp/refac/<ID>/REFAC one at a
# time against every obligation (bin/verifall); a silent run is the expected outcome.
ID=$1; WT=/tmp/refac/$ID
mkdir -p /verif/refactors/$ID
cp $WT/REFAC/meta.json /verif/refactors/$ID/meta.agent.json 2>/dev/null
for d in $WT/REFAC/0*.diff; do
  n=$(basename $d)
  cp $d /verif/refactors/$ID/$n
  cd /repo && git apply $d 2>/dev/null || { echo "[$ID/$n] DOES NOT APPLY"; continue; }
  out=$(/verif/bin/verifall 2>&1); rc=$?
  git -C /repo checkout -- .
  if [ $rc -eq 0 ]; then echo "[$ID/$n] silent"; else echo "[$ID/$n] ALARM"; echo "$out" | cut -c1-260 | sed 's/^/    /'; fi
done
