#!/bin/bash
# Development aid: re-apply every stored seeded breaking change to /repo and require at least
# one VIOLATION from the obligations (bin/verifall).
cd /verif
ok=0; bad=0
for d in seeded/*/patch.diff; do
  id=$(basename $(dirname $d))
  git -C /repo apply /verif/$d 2>/dev/null || { echo "[$id] does not apply"; continue; }
  out=$(/verif/bin/verifall 2>&1)
  git -C /repo checkout -- .
  if echo "$out" | grep -q "^VIOLATION ${id%%_*}\|^VIOLATION"; then ok=$((ok+1)); else bad=$((bad+1)); echo "[$id] MISSED"; echo "$out" | head -3; fi
done
echo "seed corpus: $ok detected, $bad missed"
