package kinesis_test

// Reproduction for C16.d and C16.e (place in connectors/kinesis; needs the generated
// protobuf code; run with GOEXPERIMENT=synctest like the rest of the package). A splitter
// is checkpointed after assigning two shards and a second splitter is started from that
// checkpoint. On the pinned tree the restore panics (SetBytes on a nil *big.Int); with only
// that repaired every restored shard is assigned twice.

import (
	"testing"

	"reduction.dev/reduction/connectors"
	"reduction.dev/reduction/connectors/kinesis"
	"reduction.dev/reduction/connectors/kinesis/kinesisfake"
	"reduction.dev/reduction/proto/snapshotpb"
	"reduction.dev/reduction/proto/workerpb"
)

func TestRepro_C16(t *testing.T) {
	fakeServer, _ := kinesisfake.StartFake()
	defer fakeServer.Close()
	client := kinesis.NewLocalClient(fakeServer.URL)
	stream := kinesis.CreateTempStream(t, client, 2)
	config := kinesis.SourceConfig{StreamARN: stream.StreamARN, Client: client}
	runnerIDs := []string{"runnerA", "runnerB"}

	first := make(chan map[string][]*workerpb.SourceSplit, 4)
	s1 := config.NewSourceSplitter(runnerIDs, connectors.SourceSplitterHooks{AssignSplits: func(a map[string][]*workerpb.SourceSplit) { first <- a }}, nil)
	if err := s1.Start(nil); err != nil {
		t.Fatal(err)
	}
	<-first
	state := s1.Checkpoint()
	s1.Close()

	second := make(chan map[string][]*workerpb.SourceSplit, 4)
	s2 := config.NewSourceSplitter(runnerIDs, connectors.SourceSplitterHooks{AssignSplits: func(a map[string][]*workerpb.SourceSplit) { second <- a }}, nil)
	if err := s2.Start(&snapshotpb.SourceCheckpoint{SplitterState: state}); err != nil {
		t.Fatal(err)
	}
	defer s2.Close()
	got := <-second
	count := map[string]int{}
	for _, splits := range got {
		for _, sp := range splits {
			count[sp.SplitId]++
		}
	}
	if len(count) != 2 {
		t.Fatalf("restored assignment covers %d shards, want 2: %v", len(count), count)
	}
	for id, n := range count {
		if n != 1 {
			t.Fatalf("shard %s was assigned %d times after restore, want once", id, n)
		}
	}
}
