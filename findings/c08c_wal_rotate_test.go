package wal

// Reproduction for C08.c (place in dkv/wal). Two memtable rotations are pending when a
// checkpoint rotates the WAL; the flush of the first one then truncates. The entries of
// the second (still only in memory) must survive into the next saved WAL. On the pinned
// tree the carried segments have latestSeqNum 0, Truncate drops them, and the reader
// panics ("supposed to start after seqNum 1 but firstSeqNum in WAL file is 3").

import (
	"testing"

	"reduction.dev/reduction/dkv/storage"
)

func TestRepro_C08c(t *testing.T) {
	fs := storage.NewMemoryFilesystem()
	w := NewWriter(fs, 0, 1<<20)
	w.Put([]byte("k1"), []byte("v"), 1)
	w.Cut()
	w.Put([]byte("k2"), []byte("v"), 2)
	w.Cut()
	w2 := w.Rotate(fs) // checkpoint 1
	w2.Truncate(1)     // the flush of the first memtable (seq 1) completes
	w2.Put([]byte("k3"), []byte("v"), 3)
	w2.Rotate(fs) // checkpoint 2 seals w2
	if err := w2.Save(); err != nil {
		t.Fatal(err)
	}
	var keys []string
	for e, err := range NewReader(fs, w2.Handle(1)).All() {
		if err != nil {
			t.Fatal(err)
		}
		keys = append(keys, string(e.K))
	}
	if len(keys) != 2 || keys[0] != "k2" || keys[1] != "k3" {
		t.Fatalf("replayed %v, want [k2 k3]", keys)
	}
}
