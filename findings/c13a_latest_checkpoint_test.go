package snapshots

// Reproduction for C13.a (place in storage/snapshots; needs the generated protobuf code).
// Two completed job snapshots (ids 2 and 3) are present in storage, as after a crash
// between writing checkpoint 3 and deleting checkpoint 2. The store must resume from id 3.
// On the pinned tree it loads id 2: base64url file names do not sort by id.

import (
	"bytes"
	"path/filepath"
	"testing"

	"google.golang.org/protobuf/proto"
	"reduction.dev/reduction/proto/snapshotpb"
	"reduction.dev/reduction/storage/locations"
)

func TestRepro_C13a(t *testing.T) {
	dir := locations.NewLocalDirectory(t.TempDir())
	for _, id := range []uint64{2, 3} {
		data, err := proto.Marshal(&snapshotpb.JobCheckpoint{Id: id, SourceCheckpoints: []*snapshotpb.SourceCheckpoint{{CheckpointId: id}}})
		if err != nil {
			t.Fatal(err)
		}
		if _, err := dir.Write(filepath.Join("checkpoints", "job-"+pathSegment(id)+".snapshot"), bytes.NewBuffer(data)); err != nil {
			t.Fatal(err)
		}
	}
	s := NewStore(&NewStoreParams{FileStore: dir, CheckpointsPath: "checkpoints", SavepointsPath: "savepoints"})
	if err := s.LoadCheckpoint(); err != nil {
		t.Fatal(err)
	}
	if got := s.CurrentCheckpoint().Id; got != 3 {
		t.Fatalf("resumed from checkpoint %d, want 3", got)
	}
}
