package sst_test

// Reproduction for C07.b (place in dkv/sst). Two level-0 tables hold the same key; the
// table flushed later (appended later) has the newer value. Fails on the pinned tree.

import (
	"iter"
	"testing"

	"reduction.dev/reduction/dkv/kv"
	"reduction.dev/reduction/dkv/sst"
	"reduction.dev/reduction/dkv/storage"
)

type reproEntry struct {
	k, v string
	seq  uint64
	del  bool
}

func (e reproEntry) Key() []byte    { return []byte(e.k) }
func (e reproEntry) Value() []byte  { return []byte(e.v) }
func (e reproEntry) IsDelete() bool { return e.del }
func (e reproEntry) SeqNum() uint64 { return e.seq }

func one(k, v string, seq uint64) iter.Seq[kv.Entry] {
	return func(yield func(kv.Entry) bool) { yield(reproEntry{k: k, v: v, seq: seq}) }
}

func TestRepro_C07b(t *testing.T) {
	fs := storage.NewMemoryFilesystem()
	tw := sst.NewTableWriter(fs, 0)
	older, err := tw.Write(one("k", "old", 1))
	if err != nil {
		t.Fatal(err)
	}
	newer, err := tw.Write(one("k", "new", 2))
	if err != nil {
		t.Fatal(err)
	}
	ll := sst.NewEmptyLevelList(3)
	cs1 := &sst.ChangeSet{}
	cs1.AddTables(0, older)
	ll = ll.NewWithChangeSet(cs1)
	cs2 := &sst.ChangeSet{}
	cs2.AddTables(0, newer)
	ll = ll.NewWithChangeSet(cs2)
	e, err := ll.Get([]byte("k"))
	if err != nil {
		t.Fatal(err)
	}
	if string(e.Value()) != "new" {
		t.Fatalf("Get returned %q, want %q", e.Value(), "new")
	}
}
