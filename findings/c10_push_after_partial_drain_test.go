package operator_test

import (
	"testing"
	"time"

	"github.com/stretchr/testify/assert"
	"reduction.dev/reduction/dkv"
	"reduction.dev/reduction/partitioning"
	"reduction.dev/reduction/dkv/storage"
	"reduction.dev/reduction/workers/operator"
)

// C10: timers fire in non-decreasing timestamp order whatever the cache size. A timer later than
// the timers that were evicted to the DB is registered after the cache has partly drained: it
// must not be handed out before the evicted (earlier) timers.
func TestC10_LateTimerAfterPartialDrainKeepsOrder(t *testing.T) {
	db := dkv.Open(dkv.DBOptions{FileSystem: storage.NewMemoryFilesystem()}, nil)
	keySpace := partitioning.NewKeySpace(1, 1) // one key group: one partition
	keyRange := partitioning.KeyGroupRange{Start: 0, End: 1}
	// every timer key is 2+1+8+1 = 12 bytes; the cache holds three
	store := operator.NewTimerStore(db, keySpace, keyRange, 40)

	for i := 1; i <= 5; i++ {
		store.Put([]byte{byte('a' + i)}, time.Unix(int64(i), 0))
	}
	// fire the two earliest: the cache is partly drained, timers 3.. are still pending
	for _, want := range []int64{1, 2} {
		tm, ok := store.Pop()
		assert.True(t, ok)
		assert.Equal(t, want, tm.Timestamp.Unix())
	}
	// a timer later than every pending one
	store.Put([]byte("z"), time.Unix(9, 0))

	var got []int64
	for {
		tm, ok := store.Pop()
		if !ok {
			break
		}
		got = append(got, tm.Timestamp.Unix())
	}
	assert.Equal(t, []int64{3, 4, 5, 9}, got, "pending timers must be handed out in timestamp order")
}
