package dkv_test

// C17 / C06: a table re-opened from its descriptor (the checkpoint document) serves the same
// point lookups and prefix scans as before. State keys start with the big-endian key group, so
// for key groups >= 128 the table's first / last key are not valid UTF-8.

import (
	"testing"

	"reduction.dev/reduction/dkv"
	"reduction.dev/reduction/dkv/recovery"
	"reduction.dev/reduction/dkv/storage"
)

func TestC17_TablesWithBinaryKeysSurviveRestore(t *testing.T) {
	fs := storage.NewMemoryFilesystem()
	db := dkv.Open(dkv.DBOptions{FileSystem: fs, MemTableSize: 64}, nil)
	// key group 200 (0x00 0xC8), state schema byte 0x00, then the subject
	keys := [][]byte{
		{0x00, 0xC8, 0x00, 'a'},
		{0x00, 0xC8, 0x00, 'b'},
		{0x00, 0xD0, 0x00, 'c'},
	}
	for _, k := range keys {
		db.Put(k, []byte("value-that-fills-the-memtable-so-that-it-is-flushed"))
	}
	if err := db.WaitOnTasks(); err != nil {
		t.Fatal(err)
	}
	cp, err := db.Checkpoint(1)()
	if err != nil {
		t.Fatal(err)
	}

	db2 := dkv.Open(dkv.DBOptions{FileSystem: fs, MemTableSize: 64}, []recovery.CheckpointHandle{cp})
	for _, k := range keys {
		if _, err := db2.Get(k); err != nil {
			t.Errorf("after restore Get(% x): %v", k, err)
		}
	}
	var scanErr error
	n := 0
	for range db2.ScanPrefix([]byte{0x00, 0xC8}, &scanErr) {
		n++
	}
	if scanErr != nil || n != 2 {
		t.Errorf("after restore ScanPrefix(00 c8) returned %d entries (err %v), want 2", n, scanErr)
	}
}
