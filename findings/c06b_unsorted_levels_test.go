package dkv_test

// Reproduction for C06.b (place in dkv). Two database instances (as two old operators)
// each compact their data into level 1; a third instance is restored from both of their
// checkpoints, handed over in the order B, A (acknowledgement order). Every key must be
// readable. On the pinned tree level 1 is the unsorted concatenation [B's table, A's table]
// and the binary search over it misses A's keys.

import (
	"fmt"
	"runtime"
	"testing"

	"reduction.dev/reduction/dkv"
	"reduction.dev/reduction/dkv/recovery"
	"reduction.dev/reduction/dkv/storage"
)

func TestRepro_C06b(t *testing.T) {
	root := storage.NewMemoryFilesystem()
	var keep []*dkv.DB // the old instances stay alive (their tables are deleted when collected, see C09.e)
	defer func() { runtime.KeepAlive(keep) }()
	mk := func(dir, prefix string) recovery.CheckpointHandle {
		db := dkv.Open(dkv.DBOptions{FileSystem: root.WithWorkingDir(dir), MemTableSize: 100}, nil)
		keep = append(keep, db)
		for round := 0; round < 2; round++ { // two flushes -> compaction into level 1
			for i := 0; i < 5; i++ {
				db.Put([]byte(fmt.Sprintf("%s%d%d", prefix, round, i)), []byte("v"))
			}
			if err := db.WaitOnTasks(); err != nil {
				t.Fatal(err)
			}
		}
		cp, err := db.Checkpoint(7)()
		if err != nil {
			t.Fatal(err)
		}
		return cp
	}
	a := mk("opA", "a")
	b := mk("opB", "b")
	db := dkv.Open(dkv.DBOptions{FileSystem: root.WithWorkingDir("opC")}, []recovery.CheckpointHandle{b, a})
	for _, k := range []string{"a00", "a14", "b00", "b14"} {
		if _, err := db.Get([]byte(k)); err != nil {
			t.Fatalf("Get(%s) after restoring from both checkpoints: %v", k, err)
		}
	}
}
