package sliceu_test

// Reproduction for C07.h / C19.a (place in util/sliceu). Exhaustive over sorted slices of
// length <= 8: every present element must be found. Fails on the pinned tree.

import (
	"cmp"
	"testing"

	"reduction.dev/reduction/util/sliceu"
)

func TestRepro_C07h(t *testing.T) {
	misses := 0
	for n := 0; n <= 8; n++ {
		s := make([]int, n)
		for i := range s {
			s[i] = i * 2
		}
		for _, target := range s {
			idx, ok := sliceu.SearchUnique(s, target, func(e, t int) int { return cmp.Compare(e, t) })
			if !ok || s[idx] != target {
				misses++
			}
		}
		// absent targets must not be found
		for target := -1; target <= 2*n; target += 2 {
			if _, ok := sliceu.SearchUnique(s, target, func(e, t int) int { return cmp.Compare(e, t) }); ok {
				t.Errorf("found absent %d in %v", target, s)
			}
		}
	}
	if misses > 0 {
		t.Fatalf("%d present elements were not found", misses)
	}
}
