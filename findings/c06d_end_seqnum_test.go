package dkv_test

// Reproduction for C06.d / C08.g (place in dkv). Keys k9..k0 are written in descending
// key order (k9 gets sequence number 1, k0 gets 10) and flushed, then a0..a9 (11..20) are
// flushed and both tables are compacted into one key-ordered table that ENDS with k9, the
// oldest entry. On the pinned tree that table's endSeqNum is 1, so the restored database
// restarts its sequence counter at 1 and an overwrite of k0 (sequence number 2) loses the
// merge against the restored k0 (sequence number 10).

import (
	"fmt"
	"testing"

	"reduction.dev/reduction/dkv"
	"reduction.dev/reduction/dkv/recovery"
	"reduction.dev/reduction/dkv/storage"
)

func TestRepro_C06d(t *testing.T) {
	fs := storage.NewMemoryFilesystem()
	db := dkv.Open(dkv.DBOptions{FileSystem: fs, MemTableSize: 200}, nil)
	for i := 9; i >= 0; i-- { // descending keys: k9 gets seq 1 ... k0 gets seq 10
		db.Put([]byte(fmt.Sprintf("k%d", i)), []byte("old"))
	}
	if err := db.WaitOnTasks(); err != nil {
		t.Fatal(err)
	}
	for i := 0; i <= 9; i++ {
		db.Put([]byte(fmt.Sprintf("a%d", i)), []byte("old"))
	}
	if err := db.WaitOnTasks(); err != nil { // second flush, then compaction of both tables
		t.Fatal(err)
	}
	cp, err := db.Checkpoint(1)()
	if err != nil {
		t.Fatal(err)
	}
	db2 := dkv.Open(dkv.DBOptions{FileSystem: fs, MemTableSize: 200}, []recovery.CheckpointHandle{cp})
	db2.Put([]byte("k0"), []byte("new")) // must get a sequence number above k0's 10
	var scanErr error
	for e := range db2.ScanPrefix([]byte("k0"), &scanErr) {
		if string(e.Value()) != "new" {
			t.Fatalf("after restore, overwriting k0 is not visible: scan returned %q", e.Value())
		}
	}
}
