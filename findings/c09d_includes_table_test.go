package dkv_test

// Reproduction for C09.d (place in dkv). After a flush and a checkpoint, the database must
// report that it needs the SST file its retained checkpoint references. On the pinned tree
// NeedsTable answers false for every checkpoint taken by the running process.

import (
	"testing"

	"reduction.dev/reduction/dkv"
	"reduction.dev/reduction/dkv/storage"
)

func TestRepro_C09d(t *testing.T) {
	fs := storage.NewMemoryFilesystem()
	db := dkv.Open(dkv.DBOptions{FileSystem: fs, MemTableSize: 1}, nil)
	db.Put([]byte("k"), []byte("v")) // exceeds the memtable size: rotates and flushes
	if err := db.WaitOnTasks(); err != nil {
		t.Fatal(err)
	}
	if _, err := db.Checkpoint(1)(); err != nil {
		t.Fatal(err)
	}
	uris := fs.List()
	found := false
	for _, u := range uris {
		if len(u) > 4 && u[len(u)-4:] == ".sst" {
			found = true
			if uri := fs.Open(u).URI(); !db.NeedsTable(uri) {
				t.Fatalf("NeedsTable(%q) = false although checkpoint 1 references the table", uri)
			}
		}
	}
	if !found {
		t.Fatal("no sst file was written")
	}
}
