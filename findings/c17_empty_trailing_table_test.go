package sst_test

import (
	"slices"
	"strings"
	"testing"

	"github.com/stretchr/testify/assert"
	"github.com/stretchr/testify/require"
	"reduction.dev/reduction/dkv/dkvtest"
	"reduction.dev/reduction/dkv/kv"
	"reduction.dev/reduction/dkv/sst"
	"reduction.dev/reduction/dkv/storage"
)

// C17: a key-ordered run written as size-bounded tables is read back entry for entry by prefix
// scan. A run whose last entry alone exceeds the maximum table size must not leave an empty
// trailing table behind that cannot be scanned.
func TestC17_RunEndingOnAFlushBoundaryReadsBack(t *testing.T) {
	tw := sst.NewTableWriter(storage.NewMemoryFilesystem(), 0)
	entries := []kv.Entry{
		dkvtest.NewKVEntry("a", strings.Repeat("x", 20)),
		dkvtest.NewKVEntry("b", strings.Repeat("y", 300)), // alone larger than 1.5x the target
	}
	tables, err := tw.WriteRun(slices.Values(entries), 100)
	require.NoError(t, err)

	var got []string
	for _, table := range tables {
		var scanErr error
		n := 0
		for e := range table.ScanPrefix(nil, &scanErr) {
			got = append(got, string(e.Key()))
			n++
		}
		require.NoError(t, scanErr, "scanning a table written by WriteRun")
		assert.NotZero(t, n, "WriteRun produced an empty table")
	}
	assert.Equal(t, []string{"a", "b"}, got)
}
