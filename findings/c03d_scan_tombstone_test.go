package dkv_test

// Reproduction for C03.d / C07.f (place in dkv). A key is written, flushed to an SST, then
// deleted in the memtable. A prefix scan must not return it. On the pinned tree the
// memtable's tombstone is dropped before the merge and the flushed value reappears.

import (
	"testing"

	"reduction.dev/reduction/dkv"
	"reduction.dev/reduction/dkv/storage"
)

func TestRepro_C03d(t *testing.T) {
	db := dkv.Open(dkv.DBOptions{FileSystem: storage.NewMemoryFilesystem(), MemTableSize: 1}, nil)
	db.Put([]byte("key-1"), []byte("v")) // exceeds the memtable size: rotated and flushed
	if err := db.WaitOnTasks(); err != nil {
		t.Fatal(err)
	}
	db.Delete([]byte("key-1"))
	var scanErr error
	n := 0
	for e := range db.ScanPrefix([]byte("key"), &scanErr) {
		t.Logf("scan returned %q", e.Key())
		n++
	}
	if scanErr != nil {
		t.Fatal(scanErr)
	}
	if n != 0 {
		t.Fatalf("scan returned %d entries for a deleted key", n)
	}
}
