package snapshots

// Reproduction for C12.b (place in storage/snapshots; needs the generated protobuf code).
// A duplicate source-runner acknowledgement must not be recorded twice. On the pinned
// tree the published checkpoint carries the split state twice.

import (
	"testing"

	"reduction.dev/reduction/proto/jobpb"
)

func TestRepro_C12b(t *testing.T) {
	snap := newJobSnapshot(1, []string{"op1"}, []string{"sr1"})
	ack := &jobpb.SourceRunnerCheckpointCompleteRequest{SourceRunnerId: "sr1", CheckpointId: 1, SplitStates: [][]byte{[]byte("split-a@42")}}
	if err := snap.addSourceRunnerSnapshot(ack); err != nil {
		t.Fatal(err)
	}
	_ = snap.addSourceRunnerSnapshot(ack) // retried RPC
	got := snap.toProto().SourceCheckpoints[0].SplitStates
	if len(got) != 1 {
		t.Fatalf("published %d split states, want 1", len(got))
	}
}
