package operator

// Reproduction for C10.d (place in workers/operator; needs the generated protobuf code).
// Five timers are stored in the DKV, the queue's cache holds only a few of them. Popping
// until the queue reports empty must return all five. On the pinned tree loadFromDB marks
// the partial load as complete and the remaining timers are never loaded.

import (
	"testing"

	"reduction.dev/reduction/dkv"
	"reduction.dev/reduction/dkv/storage"
)

func TestRepro_C10d(t *testing.T) {
	db := dkv.Open(dkv.DBOptions{FileSystem: storage.NewMemoryFilesystem()}, nil)
	key := func(i byte) []byte { return []byte{0, 7, 0x01, 0, 0, 0, 0, 0, 0, 0, i, 'k'} } // kg 7, schema 1, ts i, subject k
	for i := byte(1); i <= 5; i++ {
		db.Put(key(i), nil)
	}
	pq := NewKeyGroupPriorityQueue(db, 7, 30) // room for two 12-byte keys, full at three
	got := 0
	for !pq.IsEmpty() {
		if _, ok := pq.Pop(); !ok {
			break
		}
		got++
	}
	if got != 5 {
		t.Fatalf("popped %d timers, want 5", got)
	}
}
