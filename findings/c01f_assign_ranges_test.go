package partitioning_test

// Reproduction for C01.f / C06.a (place in partitioning; needs the generated protobuf
// code). The old checkpoints were recorded in acknowledgement order (second operator
// first). Every new operator must still be assigned the old checkpoint overlapping its
// range. On the pinned tree new operator 0 is assigned nothing.

import (
	"testing"

	"reduction.dev/reduction/partitioning"
)

func TestRepro_C01f(t *testing.T) {
	to := []partitioning.KeyGroupRange{{Start: 0, End: 128}, {Start: 128, End: 256}}
	from := []partitioning.KeyGroupRange{{Start: 128, End: 256}, {Start: 0, End: 128}} // ack order
	got := partitioning.AssignRanges(to, from)
	if len(got[0]) != 1 || got[0][0] != 1 || len(got[1]) != 1 || got[1][0] != 0 {
		t.Fatalf("assignments = %v, want [[1] [0]]", got)
	}
}
