package memtable

// Reproduction for C07.a (place in dkv/memtable and run `go test -run TestRepro_C07a`).
// Fails on the pinned tree (returns "old"), passes after the fix commit.

import "testing"

func TestRepro_C07a(t *testing.T) {
	l := NewList(&MemTableOptions{MemSize: 1 << 20, NumLevels: 4})
	l.Put([]byte("k"), []byte("old"), 1)
	l.Rotate() // seal the table holding "old"
	l.Put([]byte("k"), []byte("new"), 2)
	e, err := l.Get([]byte("k"))
	if err != nil {
		t.Fatal(err)
	}
	if string(e.Value()) != "new" {
		t.Fatalf("Get returned %q, want %q", e.Value(), "new")
	}
}
