package ds_test

// Reproduction for C10.e / C19.b (place in util/ds). Registering the same 10-byte element
// repeatedly must not change the accounted size. On the pinned tree the 100-byte cache
// reports full after 10 registrations of ONE element.

import (
	"testing"

	"reduction.dev/reduction/util/ds"
)

func TestRepro_C10e(t *testing.T) {
	c := ds.NewSortedCache(100)
	for i := 0; i < 20; i++ {
		c.Push([]byte("0123456789"))
	}
	if c.IsFull() {
		t.Fatal("a cache holding one 10-byte element reports full (limit 100)")
	}
}
