package sst_test

// Reproduction for C18 (place in dkv/sst). Level 1 holds two tables; major compaction
// reaches its space-amplification goal after selecting the first of them, leaves the inner
// loop - and then still selects a table from the NEWER level 0. The newer version of key
// "k" is merged into the base level while its older version stays in level 1 above it.
// On the pinned tree the lookup then returns the old value.

import (
	"fmt"
	"iter"
	"testing"

	"reduction.dev/reduction/dkv/kv"
	"reduction.dev/reduction/dkv/sst"
	"reduction.dev/reduction/dkv/storage"
)

type c18Entry struct {
	k, v string
	seq  uint64
}

func (e c18Entry) Key() []byte    { return []byte(e.k) }
func (e c18Entry) Value() []byte  { return []byte(e.v) }
func (e c18Entry) IsDelete() bool { return false }
func (e c18Entry) SeqNum() uint64 { return e.seq }

func c18Run(prefix string, n int, firstSeq uint64, val string) iter.Seq[kv.Entry] {
	return func(yield func(kv.Entry) bool) {
		for i := 0; i < n; i++ {
			if !yield(c18Entry{k: fmt.Sprintf("%s%05d", prefix, i), v: val, seq: firstSeq + uint64(i)}) {
				return
			}
		}
	}
}

func c18One(k, v string, seq uint64) iter.Seq[kv.Entry] {
	return func(yield func(kv.Entry) bool) { yield(c18Entry{k: k, v: v, seq: seq}) }
}

func TestRepro_C18(t *testing.T) {
	tw := sst.NewTableWriter(storage.NewMemoryFilesystem(), 0)
	must := func(tb *sst.Table, err error) *sst.Table {
		if err != nil {
			t.Fatal(err)
		}
		return tb
	}
	base := must(tw.Write(c18Run("b", 4000, 1, "base")))
	l1big := must(tw.Write(c18Run("a", 2400, 10_000, "v"))) // older table of level 1
	l1old := must(tw.Write(c18One("k", "old", 20_000)))    // newer table of level 1, holds k=old
	l0new := must(tw.Write(c18One("k", "new", 30_000)))    // level 0, holds k=new
	ll := sst.NewLevelListOfTables([][]*sst.Table{{l0new}, {l1big, l1old}, {base}})
	c := sst.Compactor{TableWriter: tw, L0RunNumCompactionTrigger: 1, MaxSizeAmplificationPercent: 50, TargetTableSize: 1 << 30}
	if p := ll.SizeAmplificationRatio().Percentage(); p <= 50 {
		t.Fatalf("setup: size amplification %d%% does not trigger a major compaction", p)
	}
	cs, err := c.Compact(ll)
	if err != nil || cs == nil {
		t.Fatalf("no compaction: %v", err)
	}
	ll = ll.NewWithChangeSet(cs)
	t.Log(ll.Diagnostics())
	// layout: no table holding a newer version of k may sit below one holding an older version
	var seqByLevel []uint64
	for lvl := 0; lvl < 3; lvl++ {
		for tb := range ll.At(lvl).AllTables() {
			if e, err := tb.Get([]byte("k")); err == nil {
				seqByLevel = append(seqByLevel, e.SeqNum())
			}
		}
	}
	for i := 1; i < len(seqByLevel); i++ {
		if seqByLevel[i] > seqByLevel[i-1] {
			t.Fatalf("newer data beneath older data for key k: sequence numbers top-down %v", seqByLevel)
		}
	}
}
