// Command pbgen regenerates the protobuf Go code that reduction-dev/reduction
// git-ignores (*.pb.go, *.connect.go) without protoc: it parses the small subset of
// the proto3 language the repository uses, builds FileDescriptorProtos, and pipes a
// CodeGeneratorRequest to the real protoc-gen-go / protoc-gen-connect-go plugins.
//
// Any construct outside the supported subset is a hard error (exit 2): the static
// checker must never analyse a program that differs from what the real build makes.
package main

import (
	"bytes"
	"flag"
	"fmt"
	"os"
	"os/exec"
	"path/filepath"
	"sort"
	"strings"
	"unicode"

	"google.golang.org/protobuf/proto"
	"google.golang.org/protobuf/reflect/protodesc"
	"google.golang.org/protobuf/reflect/protoreflect"
	"google.golang.org/protobuf/reflect/protoregistry"
	"google.golang.org/protobuf/types/descriptorpb"
	"google.golang.org/protobuf/types/pluginpb"

	_ "google.golang.org/protobuf/types/known/timestamppb"
	_ "reduction.dev/reduction-protocol/handlerpb"
	_ "reduction.dev/reduction-protocol/jobconfigpb"
)

func fatalf(format string, a ...any) {
	fmt.Fprintf(os.Stderr, "pbgen: "+format+"\n", a...)
	os.Exit(2)
}

// ---------------------------------------------------------------- lexer

type token struct {
	kind string // ident, str, int, punct, eof
	text string
	line int
}

func lex(src string, file string) []token {
	var toks []token
	line := 1
	i := 0
	for i < len(src) {
		c := src[i]
		switch {
		case c == '\n':
			line++
			i++
		case c == ' ' || c == '\t' || c == '\r':
			i++
		case c == '/' && i+1 < len(src) && src[i+1] == '/':
			for i < len(src) && src[i] != '\n' {
				i++
			}
		case c == '/' && i+1 < len(src) && src[i+1] == '*':
			j := strings.Index(src[i+2:], "*/")
			if j < 0 {
				fatalf("%s:%d: unterminated comment", file, line)
			}
			line += strings.Count(src[i:i+2+j+2], "\n")
			i += 2 + j + 2
		case c == '"':
			j := i + 1
			for j < len(src) && src[j] != '"' {
				if src[j] == '\\' {
					fatalf("%s:%d: string escapes unsupported", file, line)
				}
				j++
			}
			toks = append(toks, token{"str", src[i+1 : j], line})
			i = j + 1
		case unicode.IsLetter(rune(c)) || c == '_':
			j := i
			for j < len(src) && (unicode.IsLetter(rune(src[j])) || unicode.IsDigit(rune(src[j])) || src[j] == '_' || src[j] == '.') {
				j++
			}
			toks = append(toks, token{"ident", src[i:j], line})
			i = j
		case unicode.IsDigit(rune(c)):
			j := i
			for j < len(src) && unicode.IsDigit(rune(src[j])) {
				j++
			}
			toks = append(toks, token{"int", src[i:j], line})
			i = j
		case strings.ContainsRune("{}()=;<>,[]", rune(c)):
			toks = append(toks, token{"punct", string(c), line})
			i++
		default:
			fatalf("%s:%d: unexpected character %q", file, line, c)
		}
	}
	toks = append(toks, token{"eof", "", line})
	return toks
}

// ---------------------------------------------------------------- parser

type parser struct {
	file string
	toks []token
	pos  int
}

func (p *parser) peek() token { return p.toks[p.pos] }
func (p *parser) next() token  { t := p.toks[p.pos]; p.pos++; return t }
func (p *parser) errf(t token, format string, a ...any) {
	fatalf("%s:%d: %s", p.file, t.line, fmt.Sprintf(format, a...))
}
func (p *parser) expect(kind, text string) token {
	t := p.next()
	if t.kind != kind || (text != "" && t.text != text) {
		p.errf(t, "expected %s %q, got %s %q", kind, text, t.kind, t.text)
	}
	return t
}

var scalarTypes = map[string]descriptorpb.FieldDescriptorProto_Type{
	"double":   descriptorpb.FieldDescriptorProto_TYPE_DOUBLE,
	"float":    descriptorpb.FieldDescriptorProto_TYPE_FLOAT,
	"int32":    descriptorpb.FieldDescriptorProto_TYPE_INT32,
	"int64":    descriptorpb.FieldDescriptorProto_TYPE_INT64,
	"uint32":   descriptorpb.FieldDescriptorProto_TYPE_UINT32,
	"uint64":   descriptorpb.FieldDescriptorProto_TYPE_UINT64,
	"sint32":   descriptorpb.FieldDescriptorProto_TYPE_SINT32,
	"sint64":   descriptorpb.FieldDescriptorProto_TYPE_SINT64,
	"fixed32":  descriptorpb.FieldDescriptorProto_TYPE_FIXED32,
	"fixed64":  descriptorpb.FieldDescriptorProto_TYPE_FIXED64,
	"sfixed32": descriptorpb.FieldDescriptorProto_TYPE_SFIXED32,
	"sfixed64": descriptorpb.FieldDescriptorProto_TYPE_SFIXED64,
	"bool":     descriptorpb.FieldDescriptorProto_TYPE_BOOL,
	"string":   descriptorpb.FieldDescriptorProto_TYPE_STRING,
	"bytes":    descriptorpb.FieldDescriptorProto_TYPE_BYTES,
}

func jsonName(s string) string {
	var b strings.Builder
	up := false
	for _, r := range s {
		if r == '_' {
			up = true
			continue
		}
		if up {
			b.WriteRune(unicode.ToUpper(r))
			up = false
		} else {
			b.WriteRune(r)
		}
	}
	return b.String()
}

func (p *parser) parseFile() *descriptorpb.FileDescriptorProto {
	fd := &descriptorpb.FileDescriptorProto{Name: proto.String(p.file)}
	for {
		t := p.next()
		if t.kind == "eof" {
			break
		}
		if t.kind != "ident" {
			p.errf(t, "unexpected %q at top level", t.text)
		}
		switch t.text {
		case "syntax":
			p.expect("punct", "=")
			s := p.expect("str", "")
			if s.text != "proto3" {
				p.errf(s, "only proto3 is supported")
			}
			fd.Syntax = proto.String("proto3")
			p.expect("punct", ";")
		case "import":
			s := p.next()
			if s.kind != "str" {
				p.errf(s, "import modifiers (public/weak) unsupported")
			}
			fd.Dependency = append(fd.Dependency, s.text)
			p.expect("punct", ";")
		case "package":
			fd.Package = proto.String(p.expect("ident", "").text)
			p.expect("punct", ";")
		case "option":
			name := p.expect("ident", "")
			p.expect("punct", "=")
			val := p.expect("str", "")
			p.expect("punct", ";")
			if name.text != "go_package" {
				p.errf(name, "unsupported file option %q", name.text)
			}
			if fd.Options == nil {
				fd.Options = &descriptorpb.FileOptions{}
			}
			fd.Options.GoPackage = proto.String(val.text)
		case "message":
			fd.MessageType = append(fd.MessageType, p.parseMessage())
		case "service":
			fd.Service = append(fd.Service, p.parseService())
		default:
			p.errf(t, "unsupported top-level construct %q", t.text)
		}
	}
	if fd.Syntax == nil {
		fatalf("%s: missing syntax statement", p.file)
	}
	return fd
}

func (p *parser) parseField(md *descriptorpb.DescriptorProto, first token, oneofIndex int32) {
	label := descriptorpb.FieldDescriptorProto_LABEL_OPTIONAL
	typ := first
	if first.text == "repeated" {
		if oneofIndex >= 0 {
			p.errf(first, "repeated inside oneof")
		}
		label = descriptorpb.FieldDescriptorProto_LABEL_REPEATED
		typ = p.expect("ident", "")
	} else if first.text == "optional" || first.text == "required" || first.text == "map" ||
		first.text == "enum" || first.text == "message" || first.text == "reserved" ||
		first.text == "extensions" || first.text == "option" || first.text == "group" {
		p.errf(first, "unsupported message element %q", first.text)
	}
	name := p.expect("ident", "")
	p.expect("punct", "=")
	num := p.expect("int", "")
	end := p.next()
	if end.kind != "punct" || end.text != ";" {
		p.errf(end, "field options unsupported")
	}
	var n int32
	fmt.Sscanf(num.text, "%d", &n)
	f := &descriptorpb.FieldDescriptorProto{
		Name:     proto.String(name.text),
		Number:   proto.Int32(n),
		Label:    label.Enum(),
		JsonName: proto.String(jsonName(name.text)),
	}
	if st, ok := scalarTypes[typ.text]; ok {
		f.Type = st.Enum()
	} else {
		// resolved later
		f.TypeName = proto.String(typ.text)
	}
	if oneofIndex >= 0 {
		f.OneofIndex = proto.Int32(oneofIndex)
	}
	md.Field = append(md.Field, f)
}

func (p *parser) parseMessage() *descriptorpb.DescriptorProto {
	name := p.expect("ident", "")
	md := &descriptorpb.DescriptorProto{Name: proto.String(name.text)}
	p.expect("punct", "{")
	for {
		t := p.next()
		if t.kind == "punct" && t.text == "}" {
			break
		}
		if t.kind == "punct" && t.text == ";" {
			continue
		}
		if t.kind != "ident" {
			p.errf(t, "unexpected %q in message", t.text)
		}
		if t.text == "oneof" {
			on := p.expect("ident", "")
			idx := int32(len(md.OneofDecl))
			md.OneofDecl = append(md.OneofDecl, &descriptorpb.OneofDescriptorProto{Name: proto.String(on.text)})
			p.expect("punct", "{")
			for {
				ft := p.next()
				if ft.kind == "punct" && ft.text == "}" {
					break
				}
				if ft.kind != "ident" {
					p.errf(ft, "unexpected %q in oneof", ft.text)
				}
				p.parseField(md, ft, idx)
			}
			continue
		}
		p.parseField(md, t, -1)
	}
	return md
}

func (p *parser) parseService() *descriptorpb.ServiceDescriptorProto {
	name := p.expect("ident", "")
	sd := &descriptorpb.ServiceDescriptorProto{Name: proto.String(name.text)}
	p.expect("punct", "{")
	for {
		t := p.next()
		if t.kind == "punct" && t.text == "}" {
			break
		}
		if t.kind != "ident" || t.text != "rpc" {
			p.errf(t, "unsupported service element %q", t.text)
		}
		mn := p.expect("ident", "")
		p.expect("punct", "(")
		in := p.expect("ident", "")
		if in.text == "stream" {
			p.errf(in, "streaming rpc unsupported")
		}
		p.expect("punct", ")")
		p.expect("ident", "returns")
		p.expect("punct", "(")
		out := p.expect("ident", "")
		if out.text == "stream" {
			p.errf(out, "streaming rpc unsupported")
		}
		p.expect("punct", ")")
		e := p.next()
		if e.kind == "punct" && e.text == "{" {
			p.expect("punct", "}")
		} else if !(e.kind == "punct" && e.text == ";") {
			p.errf(e, "expected ; after rpc")
		}
		sd.Method = append(sd.Method, &descriptorpb.MethodDescriptorProto{
			Name: proto.String(mn.text), InputType: proto.String(in.text), OutputType: proto.String(out.text),
		})
	}
	return sd
}

// ---------------------------------------------------------------- resolution

// resolve turns a possibly-relative type reference into a fully-qualified one using
// protoc's scoping rule: try the innermost scope first, then each enclosing package.
func resolve(ref string, pkg string, known map[string]bool, where string) string {
	if strings.HasPrefix(ref, ".") {
		if known[ref[1:]] {
			return ref
		}
		fatalf("%s: unresolved type %q", where, ref)
	}
	scope := pkg
	for {
		cand := ref
		if scope != "" {
			cand = scope + "." + ref
		}
		if known[cand] {
			return "." + cand
		}
		if scope == "" {
			break
		}
		if i := strings.LastIndex(scope, "."); i >= 0 {
			scope = scope[:i]
		} else {
			scope = ""
		}
	}
	fatalf("%s: unresolved type %q in package %q", where, ref, pkg)
	return ""
}

func collectMessages(fd *descriptorpb.FileDescriptorProto, known map[string]bool) {
	var walk func(prefix string, mds []*descriptorpb.DescriptorProto)
	walk = func(prefix string, mds []*descriptorpb.DescriptorProto) {
		for _, m := range mds {
			n := m.GetName()
			if prefix != "" {
				n = prefix + "." + n
			}
			known[n] = true
			walk(n, m.NestedType)
		}
	}
	walk(fd.GetPackage(), fd.MessageType)
}

func main() {
	repo := flag.String("repo", "/repo", "repository root")
	out := flag.String("out", "", "output directory (mirrors repo-relative paths)")
	plugins := flag.String("plugins", "", "directory holding protoc-gen-go and protoc-gen-connect-go")
	flag.Parse()
	if *out == "" || *plugins == "" {
		fatalf("usage: pbgen -repo /repo -out DIR -plugins DIR")
	}

	// Find the repository's .proto files (same globs as scripts/gen).
	var protoFiles []string
	for _, root := range []string{"proto", "connectors"} {
		filepath.WalkDir(filepath.Join(*repo, root), func(path string, d os.DirEntry, err error) error {
			if err == nil && !d.IsDir() && strings.HasSuffix(path, ".proto") {
				rel, _ := filepath.Rel(*repo, path)
				protoFiles = append(protoFiles, filepath.ToSlash(rel))
			}
			return nil
		})
	}
	sort.Strings(protoFiles)
	if len(protoFiles) == 0 {
		fatalf("no .proto files found under %s", *repo)
	}

	own := map[string]*descriptorpb.FileDescriptorProto{}
	for _, f := range protoFiles {
		src, err := os.ReadFile(filepath.Join(*repo, f))
		if err != nil {
			fatalf("%v", err)
		}
		p := &parser{file: f, toks: lex(string(src), f)}
		own[f] = p.parseFile()
	}

	// External imports come from the linked-in registry.
	ext := map[string]*descriptorpb.FileDescriptorProto{}
	var addExt func(name string)
	addExt = func(name string) {
		if _, ok := ext[name]; ok {
			return
		}
		d, err := protoregistry.GlobalFiles.FindFileByPath(name)
		if err != nil {
			fatalf("import %q: not in repository and not in registry: %v", name, err)
		}
		ext[name] = protodesc.ToFileDescriptorProto(d)
		imps := d.Imports()
		for i := 0; i < imps.Len(); i++ {
			addExt(imps.Get(i).Path())
		}
	}
	for _, fd := range own {
		for _, dep := range fd.Dependency {
			if _, ok := own[dep]; !ok {
				addExt(dep)
			}
		}
	}

	all := map[string]*descriptorpb.FileDescriptorProto{}
	for k, v := range own {
		all[k] = v
	}
	for k, v := range ext {
		all[k] = v
	}

	// Resolve type names per file against the messages visible through its imports.
	for name, fd := range own {
		known := map[string]bool{}
		collectMessages(fd, known)
		for _, dep := range fd.Dependency {
			collectMessages(all[dep], known)
		}
		for _, m := range fd.MessageType {
			if len(m.NestedType) > 0 {
				fatalf("%s: nested messages unsupported", name)
			}
			for _, f := range m.Field {
				if f.TypeName != nil {
					f.TypeName = proto.String(resolve(f.GetTypeName(), fd.GetPackage(), known, name+":"+m.GetName()+"."+f.GetName()))
					f.Type = descriptorpb.FieldDescriptorProto_TYPE_MESSAGE.Enum()
				}
			}
		}
		for _, s := range fd.Service {
			for _, m := range s.Method {
				m.InputType = proto.String(resolve(m.GetInputType(), fd.GetPackage(), known, name+":"+s.GetName()+"."+m.GetName()))
				m.OutputType = proto.String(resolve(m.GetOutputType(), fd.GetPackage(), known, name+":"+s.GetName()+"."+m.GetName()))
			}
		}
	}

	// Topological order (dependencies first).
	var order []*descriptorpb.FileDescriptorProto
	seen := map[string]int{}
	var visit func(name string)
	visit = func(name string) {
		switch seen[name] {
		case 2:
			return
		case 1:
			fatalf("import cycle at %s", name)
		}
		seen[name] = 1
		deps := all[name].Dependency
		for _, d := range deps {
			visit(d)
		}
		seen[name] = 2
		order = append(order, all[name])
	}
	var names []string
	for n := range all {
		names = append(names, n)
	}
	sort.Strings(names)
	for _, n := range names {
		visit(n)
	}

	// Validate our descriptors by building them (catches bad numbers, duplicate names...).
	reg := new(protoregistry.Files)
	for _, fd := range order {
		d, err := protodesc.NewFile(fd, reg)
		if err != nil {
			fatalf("descriptor for %s is invalid: %v", fd.GetName(), err)
		}
		if err := reg.RegisterFile(d); err != nil {
			fatalf("register %s: %v", fd.GetName(), err)
		}
		_ = protoreflect.FileDescriptor(d)
	}

	req := &pluginpb.CodeGeneratorRequest{
		FileToGenerate: protoFiles,
		Parameter:      proto.String("paths=source_relative"),
		ProtoFile:      order,
	}
	reqBytes, err := proto.Marshal(req)
	if err != nil {
		fatalf("marshal request: %v", err)
	}

	written := 0
	for _, plugin := range []string{"protoc-gen-go", "protoc-gen-connect-go"} {
		cmd := exec.Command(filepath.Join(*plugins, plugin))
		cmd.Stdin = bytes.NewReader(reqBytes)
		var stdout, stderr bytes.Buffer
		cmd.Stdout, cmd.Stderr = &stdout, &stderr
		if err := cmd.Run(); err != nil {
			fatalf("%s: %v\n%s", plugin, err, stderr.String())
		}
		var resp pluginpb.CodeGeneratorResponse
		if err := proto.Unmarshal(stdout.Bytes(), &resp); err != nil {
			fatalf("%s: bad response: %v", plugin, err)
		}
		if resp.Error != nil {
			fatalf("%s: %s", plugin, resp.GetError())
		}
		for _, f := range resp.File {
			dst := filepath.Join(*out, filepath.FromSlash(f.GetName()))
			if err := os.MkdirAll(filepath.Dir(dst), 0o755); err != nil {
				fatalf("%v", err)
			}
			if err := os.WriteFile(dst, []byte(f.GetContent()), 0o644); err != nil {
				fatalf("%v", err)
			}
			fmt.Println(f.GetName())
			written++
		}
	}
	if written == 0 {
		fatalf("plugins produced no files")
	}
}
